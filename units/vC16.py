"""(F) Verus contract on the arm loop of `execute_function_match_arms` (src/interpreter/src/functions.rs), extracted on every run
from `for (arm_idx, arm) in fxn_def.code.match_arms.iter().enumerate()` to the end of the function, onto contracts/C16/armmodel.rs.
Mechanical rewrites (anything else is a lost anchor):
  A1  every `trace_println!( .. );` statement is removed (tracing only)
  A2  the loop header -> `for arm_idx in 0..fxn_def.code.match_arms.len() { let arm = &fxn_def.code.match_arms[arm_idx];`
      (`.rev()` / `.skip(n)` on the iterator become the corresponding index ranges);
      `for (_, arg_expr) in fxn_call.args.iter() {` -> `for k_ in 0..fxn_call.args.len() { let arg_expr = &fxn_call.args[k_].1;`
  A3  `crate::patterns::pattern_matches_arguments` -> `pattern_matches_arguments`
  A4  `return Ok(e)` -> `return Some(e)`; `return Err(..)` / the final `Err(..)` -> `None`
The exhaustiveness pre-check above the loop is not part of this unit."""
import re
import vlib
from vlib import AnchorLost, find_code, match_brace, extract_fn
from units import vmat

PATH = "src/interpreter/src/functions.rs"
# the names the contracts were written with, in order of first binding (vlib.canon_bindings maps a pure rename back to them)
ARM_LOCALS = ['arm_idx', 'arm', 'env', 'matched', 'fxn_call', 'tail_args', 'arg_expr', 'out', 'coerced']
GUARD_LOCALS = ['arm', 'enum_name', 'missing_patterns']


def _model():
    import os
    return open(os.path.join(os.path.dirname(os.path.dirname(os.path.abspath(__file__))), "contracts", "C16", "armmodel.rs")).read()


def strip_macro_stmts(b, name):
    """remove every `name!( .. );` statement (balanced parentheses)"""
    while True:
        m = re.search(r"\b%s!\s*\(" % name, b)
        if not m:
            return b
        e = match_brace(b, m.end() - 1, "(", ")")
        k = e
        while k < len(b) and b[k] in " \t\r\n":
            k += 1
        if k < len(b) and b[k] == ";":
            k += 1
        b = b[:m.start()] + b[k:]


def err_to_none(b):
    while True:
        m = re.search(r"\bErr\s*\(", b)
        if not m:
            return b
        e = match_brace(b, m.end() - 1, "(", ")")
        # swallow the builder chain `.with_compiler_loc().with_tokens(..)`
        while True:
            mm = re.match(r"\s*\.\s*\w+\s*\(", b[e:])
            if not mm:
                break
            e = match_brace(b, e + mm.end() - 1, "(", ")")
        pre = b[:m.start()]
        b = pre + "None" + b[e:]


def arm_loop(text):
    sig, body = extract_fn(text, "execute_function_match_arms")
    HDR = r"for\s+\(arm_idx,\s*arm\)\s+in\s+fxn_def\.code\.match_arms\.iter\(\)\.enumerate\(\)(\.rev\(\))?(?:\.skip\((\w+)\))?\s*\{"
    a = find_code(body, HDR)
    if not a:
        raise AnchorLost("execute_function_match_arms: the loop over fxn_def.code.match_arms not found")
    # the unit starts after the exhaustiveness pre-check (a `#[cfg(..)] { .. }` block), so that declarations hoisted out of the loop are seen
    start = a.start()
    mc = find_code(body, r"#\[cfg\(all\(feature\s*=\s*\"kind_annotation\",\s*feature\s*=\s*\"enum\"\)\)\]\s*\{")
    if mc and mc.end() < a.start():
        start = match_brace(body, mc.end() - 1)
    b = re.sub(r"//[^\n]*", "", body[start:body.rindex("}")]).replace("\r", "")
    b = strip_macro_stmts(b, "trace_println")
    b = vlib.canon_bindings(sig, b, ["fxn_def", "input_arg_values", "p"], ARM_LOCALS)
    mh = re.search(HDR, b)
    if not mh:
        raise AnchorLost("execute_function_match_arms: the loop over fxn_def.code.match_arms not found")
    if mh.group(1):     # `.rev()`: the same loop over descending positions
        hdr = "for r_ in %s..fxn_def.code.match_arms.len() { let arm_idx = fxn_def.code.match_arms.len() - 1 - r_; let arm = &fxn_def.code.match_arms[arm_idx];" % (mh.group(2) or "0")
    else:
        hdr = "for arm_idx in %s..fxn_def.code.match_arms.len() { let arm = &fxn_def.code.match_arms[arm_idx];" % (mh.group(2) or "0")
    b = b[:mh.start()] + hdr + b[mh.end():]
    b, n2 = re.subn(r"for\s+\(_,\s*(\w+)\)\s+in\s+fxn_call\.args\.iter\(\)\s*\{", r"for k_ in 0..fxn_call.args.len() { let \1 = &fxn_call.args[k_].1;", b)
    b = b.replace("crate::patterns::pattern_matches_arguments", "pattern_matches_arguments")
    b = re.sub(r"\breturn\s+Ok\s*\(", "return Some(", b)
    b = err_to_none(b)
    if re.search(r"\b(Ok|Err|MechError|trace_println)\b", b):
        raise AnchorLost("execute_function_match_arms: statements outside the transcription rules")
    return b, bool(mh.group(1))


ARMS = "fxn_def.code.match_arms@"
FH = "first_hit(%s, input_arg_values@, %%s)" % ARMS
OUTER = ("    invariant tested_in_order(p.log@, old(p).log@, %s, arm_idx as int), p.log@.len() == old(p).log@.len() + arm_idx, %s == %s," % (ARMS, FH % "0", FH % "arm_idx as int"))
INNER = ("    invariant arm_idx < %s.len(), *arm == %s[arm_idx as int], arm.expression == Expression::FunctionCall(*fxn_call), tail_args@.len() == k_,\n"
         "      %s == arm_idx, pm(arm.pattern, input_arg_values@) == Some(true),\n"
         "      forall|i: int| 0 <= i < k_ ==> Some(#[trigger] tail_args@[i]) == ev(fxn_call.args@[i].1, Some(&env)),\n"
         "      p.log@.len() == old(p).log@.len() + arm_idx + 1 + k_,\n"
         "      tested_in_order(p.log@, old(p).log@, %s, arm_idx + 1),\n"
         "      forall|m: int| old(p).log@.len() + arm_idx + 1 <= m < p.log@.len() ==> belongs(#[trigger] p.log@[m], *arm)," % (ARMS, ARMS, FH % "0", ARMS))

ENSURES = """  ensures ({{
    // k: the first arm (source order) whose pattern does not answer 'no match'
    let k = first_hit({A}, input_arg_values@, 0);
    let hit = {A}[k];
    let env_k = bind(hit.pattern, input_arg_values@);
    // no arm matches: an error; every arm was tested exactly once, in order, and nothing was evaluated
    &&& (k == {A}.len() ==> res.is_none() && tested_in_order(final(p).log@, old(p).log@, {A}, k) && final(p).log@.len() == old(p).log@.len() + k)
    &&& (k < {A}.len() ==> {{
          // arms 0..=k were tested once each, in order ...
          &&& tested_in_order(final(p).log@, old(p).log@, {A}, k + 1)
          // ... and after that nothing but arm k is evaluated: no later arm is tested, no other arm's expression runs
          &&& (forall|m: int| old(p).log@.len() + k + 1 <= m < final(p).log@.len() ==> belongs(#[trigger] final(p).log@[m], hit))
          &&& (pm(hit.pattern, input_arg_values@) is None ==> res.is_none() && final(p).log@.len() == old(p).log@.len() + k + 1)
          // the value is that of arm k's expression under the bindings of its pattern
          &&& (match res {{
                Some(FunctionCallStep::Return(v)) => exists|o: Value| ev(hit.expression, Some(&env_k)) == Some(o) && #[trigger] co(dv(o)) == Some(v),
                Some(FunctionCallStep::TailCall(t)) => match hit.expression {{
                  Expression::FunctionCall(c) => c.name.h == fxn_def.code.name.h && t@.len() == c.args@.len() && t@.len() == fxn_def.input@.len()
                    && forall|i: int| 0 <= i < t@.len() ==> Some(#[trigger] t@[i]) == ev(c.args@[i].1, Some(&env_k)),
                  _ => false }},
                None => true }})
        }})
  }}),
""".format(A=ARMS)


def arm_fn(text):
    b, reversed_ = arm_loop(text)
    n = len(vlib.find_all_code(b, r"\bfor\b"))
    if n != 2:
        raise AnchorLost("execute_function_match_arms: %d loops in the arm loop, the contract was written for 2" % n)
    # a reversed loop keeps the contract of the forward one (it cannot hold: the first arm in source order must win)
    outer = OUTER.replace("arm_idx", "(fxn_def.code.match_arms.len() - 1 - r_)") if reversed_ else OUTER
    b = vmat.inject(b, [(outer, ""), (INNER, "")])
    return ("fn execute_function_match_arms(fxn_def: &FunctionDefinition, input_arg_values: &Vec<Value>, p: &mut Interpreter) -> (res: Option<FunctionCallStep>)\n"
            + ENSURES + "{\n" + b + "\n}\n")


def unit_text():
    text = vlib.read_repo(PATH)
    return vlib.verus_file([_model(), arm_fn(text), vlib.verus_canary("canary_arms", "x: u64", [])])


def arity_fn(text):
    """the statements of `execute_user_function` before the broadcast attempt (`#[cfg(feature = "matrix")] if let Some(result) = try_broadcast..`),
    i.e. the arity guard, with `return Err(..)` -> `return None`."""
    sig, body = extract_fn(text, "execute_user_function")
    z = find_code(body, r"#\[cfg\(feature\s*=\s*\"matrix\"\)\]\s*if\s+let\s+Some\(result\)\s*=\s*try_broadcast_user_function")
    if not z:
        raise AnchorLost("execute_user_function: the broadcast attempt that follows the arity guard not found")
    b = re.sub(r"//[^\n]*", "", body[body.index("{") + 1:z.start()]).replace("\r", "")
    b = strip_macro_stmts(b, "trace_println")
    b = vlib.canon_bindings(sig, b, ["fxn_def", "input_arg_values", "p"], [])
    b = err_to_none(b)
    if re.search(r"\b(Ok|Err|MechError|expression|statement|bind_function_inputs)\b", b) or "return None" not in b:
        raise AnchorLost("execute_user_function: the statements before the broadcast attempt are no longer just the arity guard")
    return ("fn execute_user_function_arity_guard(fxn_def: &FunctionDefinition, input_arg_values: &Vec<Value>, p: &mut Interpreter) -> (res: Option<()>)\n"
            "  ensures res.is_some() <==> input_arg_values@.len() == fxn_def.input@.len(), final(p).log@ == old(p).log@,\n{\n" + b + "\n  Some(())\n}\n")


# ---------------------------------------------------------------------------------------------------------------------
# `match` expressions: the wildcard / exhaustiveness guard at the top of match_expression
def default_features(cargo_toml_text):
    """closure of the `default` feature of a crate's [features] table (entries of other crates, `a/b`, are ignored)"""
    sec = cargo_toml_text[cargo_toml_text.index("[features]"):]
    nxt = re.search(r"^\[(?!features)", sec[1:], re.M)
    if nxt:
        sec = sec[:nxt.start() + 1]
    table = {m.group(1): re.findall(r'"([^"]+)"', m.group(2)) for m in re.finditer(r"^([\w-]+)\s*=\s*\[(.*?)\]", sec, re.S | re.M)}
    on, todo = set(), ["default"]
    while todo:
        f = todo.pop()
        if f in on or "/" in f:
            continue
        on.add(f)
        todo += table.get(f, [])
    return on


def _eval_cfg(expr, on):
    expr = expr.strip()
    m = re.fullmatch(r'feature\s*=\s*"([^"]+)"', expr)
    if m:
        return m.group(1) in on
    for op in ("not", "all", "any"):
        m = re.fullmatch(r"%s\s*\((.*)\)" % op, expr, re.S)
        if m:
            parts = [_eval_cfg(x, on) for x in vmat._split_top_commas(m.group(1)) if x.strip()]
            return (not parts[0]) if op == "not" else (all(parts) if op == "all" else any(parts))
    raise AnchorLost("cfg predicate outside the evaluator: " + expr)


def apply_cfg(b, on):
    """evaluate `#[cfg(..)]` attributes on statements / blocks for the feature set `on`: a true attribute is removed, a false one
    removes the attributed block `{..}`, `if .. {..} [else ..]` chain or statement up to `;`"""
    while True:
        m = re.search(r"#\[cfg\(", b)
        if not m:
            return b
        e = match_brace(b, m.end() - 1, "(", ")")
        if b[e] != "]":
            raise AnchorLost("malformed cfg attribute")
        keep = _eval_cfg(b[m.end():e - 1], on)
        k = e + 1
        if keep:
            b = b[:m.start()] + b[k:]
            continue
        while b[k] in " \t\r\n":
            k += 1
        if b[k] == "{":
            end = match_brace(b, k)
        elif re.match(r"if\b", b[k:]):
            end = k
            while True:
                end = match_brace(b, b.index("{", end))
                mm = re.match(r"\s*else\s*(if\b)?", b[end:])
                if not mm:
                    break
                end = end + mm.end() - (2 if mm.group(1) else 0)
        else:
            depth, end = 0, k
            while end < len(b) and not (b[end] == ";" and depth == 0):
                depth += b[end] in "([{"
                depth -= b[end] in ")]}"
                end += 1
            end += 1
        b = b[:m.start()] + b[end:]


GUARD_MODEL = """
pub struct MatchExpression { pub id: u64 }
pub struct Value { pub id: u64 }
pub struct Environment { pub id: u64 }
pub struct Interpreter { pub id: u64 }
pub struct Name { pub id: u64 }
pub struct PatternText { pub id: u64 }
pub uninterp spec fn has_wildcard(m: MatchExpression) -> bool;                                   // some arm's pattern is `*`
pub uninterp spec fn missing(m: MatchExpression, source: Value) -> Option<(Name, Vec<PatternText>)>;   // infer_missing_enum_match_patterns
pub uninterp spec fn kinds_ok(m: MatchExpression, env: Environment) -> Option<()>;
// `match_expr.arms.iter().any(|arm| matches!(arm.pattern, Pattern::Wildcard))`
#[verifier::external_body]
pub fn has_wildcard_arm(m: &MatchExpression) -> (b: bool) ensures b == has_wildcard(*m), { unimplemented!() }
#[verifier::external_body]
pub fn infer_missing_enum_match_patterns(m: &MatchExpression, source: &Value, p: &Interpreter) -> (o: Option<(Name, Vec<PatternText>)>)
  ensures o == missing(*m, *source),
{ unimplemented!() }
#[verifier::external_body]
pub fn validate_match_arm_output_kinds(m: &MatchExpression, env: &Environment, p: &Interpreter) -> (o: Option<()>)
  ensures o == kinds_ok(*m, *env),
{ unimplemented!() }
"""


def guard_fn(text, features):
    """the statement `if !match_expr.arms.iter().any(|arm| matches!(arm.pattern, Pattern::Wildcard)) { .. }` of `match_expression`
    (src/interpreter/src/expressions.rs), with the `#[cfg(..)]` attributes inside it evaluated for the crate's default feature set:
    the `any(..)` expression -> `has_wildcard_arm(match_expr)`, `return Err(..)` -> `return None`, `Vec::is_empty` kept."""
    sig, body = extract_fn(text, "match_expression")
    m = find_code(body, r"if\s+!\s*match_expr\s*\.arms\s*\.iter\(\)\s*\.any\(\s*\|arm\|\s*matches!\(arm\.pattern,\s*Pattern::Wildcard\)\s*\)\s*\{")
    if not m:
        raise AnchorLost("match_expression: the wildcard test `if !match_expr.arms.iter().any(..)` not found")
    e = match_brace(body, m.end() - 1)
    b = re.sub(r"//[^\n]*", "", body[m.start():e]).replace("\r", "")
    b = vlib.canon_bindings(sig, b, ["match_expr", "env", "p"], GUARD_LOCALS)
    b = re.sub(r"^if\s+!\s*match_expr\s*\.arms\s*\.iter\(\)\s*\.any\(\s*\|arm\|\s*matches!\(arm\.pattern,\s*Pattern::Wildcard\)\s*\)", "if !has_wildcard_arm(match_expr)", b)
    b = apply_cfg(b, features)
    b = err_to_none(b)
    if re.search(r"\b(Ok|Err|MechError|cfg)\b", b):
        raise AnchorLost("match_expression: the exhaustiveness guard is outside the transcription rules")
    return ("fn match_exhaustiveness_guard(match_expr: &MatchExpression, detached_source: Value, base_env: Environment, p: &Interpreter) -> (res: Option<()>)\n"
            "  ensures res.is_some() ==> (has_wildcard(*match_expr) || (missing(*match_expr, detached_source) is Some && missing(*match_expr, detached_source).unwrap().1@.len() == 0)),\n"
            "    has_wildcard(*match_expr) ==> res.is_some(),\n{\n" + b + "\n  Some(())\n}\n")


# ---------------------------------------------------------------------------------------------------------------------
# `match` expressions: the arm loop of match_expression
MATCH_LOCALS = ['source', 'detached_source', 'reference', 'base_env', 'var', 'arm', 'enum_name', 'missing_patterns', 'passed_guard', 'guard', 'arm_ix',
                'guard_env', 'matched', 'wildcard_arm', 'wildcard_passed', 'fallback', 'coalesced', 'output']
MATCH_ENS = """  ensures ({
    let arms = match_expr.arms@;
    // k: the first arm, in source order, whose pattern matches the source value and whose guard is true (or whose test fails with an error)
    let k = first_hit(arms, detached_source, base_env, 0);
    !quirk_before(arms, detached_source, base_env, k) ==> {
      // no arm is taken: an error, and no body was evaluated
      &&& (k == arms.len() ==> res is Err && evals_only(final(p).log@, old(p).log@.len() as int, None))
      &&& (k < arms.len() && !special(detached_source, arms[k]) ==> {
            let arm = arms[k];
            // the only body evaluated is that of arm k (no later arm runs), and at most arms 0..=k were tested
            &&& evals_only(final(p).log@, old(p).log@.len() as int, Some(arm.expression))
            &&& final(p).log@.len() <= old(p).log@.len() + 2 * (k + 1) + 1
            &&& (arm_hit(arm, detached_source, base_env) is None ==> res is Err)
            // the value is that of arm k's body under the bindings of its pattern
            &&& (arm_hit(arm, detached_source, base_env) == Some(true) ==> (match ev(arm.expression, arm_env(arm, detached_source, base_env)) {
                    None => res is Err,
                    Some(v) => if kinds_ok(arms, k, kind_of(v), detached_source, base_env) { res matches Ok(o) && o == v } else { res is Err },
                  }))
          })
    }
  }),
"""
MATCH_INV = """      invariant
        first_hit(match_expr.arms@, detached_source, base_env, 0) == first_hit(match_expr.arms@, detached_source, base_env, IX as int),
        old(p).log@.len() <= p.log@.len() <= old(p).log@.len() + 2 * CNT,
        evals_only(p.log@, old(p).log@.len() as int, None),
"""


def _match_model():
    import os
    return open(os.path.join(os.path.dirname(os.path.dirname(os.path.abspath(__file__))), "contracts", "C16", "matchmodel.rs")).read() + """
#[verifier::external_body]
pub fn special_case(p: &mut Interpreter) -> (o: Option<Result<Value, MechError>>) { unimplemented!() }
"""


def match_arms_fn(text, features):
    """the arm loop of `match_expression` (src/interpreter/src/expressions.rs), from `for (arm_ix, arm) in match_expr.arms.iter().enumerate()` to the
    end of the function, onto contracts/C16/matchmodel.rs; `detached_source` and `base_env` (computed above the loop) become parameters.
      E1  loop header -> `for arm_ix in 0..match_expr.arms.len() { let arm = &match_expr.arms[arm_ix];` (`.rev()` -> descending positions)
      E2  `crate::patterns::` path prefixes dropped
      E3  `#[cfg(..)]` attributes evaluated (default features); the option/matrix coalescing block
          `if value_contains_empty(&detached_source) && is_identity_option_matrix_arm(arm) { .. }` -> `if is_special(&detached_source, arm) { if let Some(r) = special_case(p) { return r; } }`
          (its body is abstracted but keeps its ability to return; nothing is claimed for arms in that case)
      E4  the final `Err(MechError::new(MatchNoArmMatchedError, ..)..)` -> `Err(no_arm_matched_error())`"""
    sig, body = extract_fn(text, "match_expression")
    b0 = re.sub(r"//[^\n]*", "", body[body.index("{") + 1:body.rindex("}")]).replace("\r", "")
    b0 = vlib.canon_bindings(sig, b0, ["match_expr", "env", "p"], MATCH_LOCALS)
    HDR = r"for\s+\(arm_ix,\s*arm\)\s+in\s+match_expr\.arms\.iter\(\)\.enumerate\(\)(\.rev\(\))?\s*\{"
    mh = find_code(b0, HDR)
    if not mh:
        raise AnchorLost("match_expression: the loop over match_expr.arms not found")
    # the unit starts after the Empty pre-check above the loop, so that declarations hoisted out of the loop are seen
    start = mh.start()
    mp = find_code(b0, r"if\s+value_contains_empty\(\s*&detached_source\s*\)\s*&&\s*!\s*has_identity_wildcard_coalesce_arms\(\s*match_expr\s*\)\s*\{")
    if mp and mp.end() < mh.start():
        start = match_brace(b0, mp.end() - 1)
    b = b0[start:]
    b = apply_cfg(b, features)
    b = b.replace("crate::patterns::", "")
    # E3
    ms = find_code(b, r"if\s+value_contains_empty\(\s*&detached_source\s*\)\s*&&\s*is_identity_option_matrix_arm\(\s*arm\s*\)\s*\{")
    if ms:
        e = match_brace(b, ms.end() - 1)
        b = b[:ms.start()] + "if is_special(&detached_source, arm) { if let Some(r) = special_case(p) { return r; } }" + b[e:]
    # E4
    mt = list(re.finditer(r"\bErr\s*\(\s*MechError::new\(\s*MatchNoArmMatchedError", b))
    if len(mt) != 1:
        raise AnchorLost("match_expression: the final MatchNoArmMatchedError not found")
    e = match_brace(b, mt[0].start() + b[mt[0].start():].index("("), "(", ")")
    b = b[:mt[0].start()] + "Err(no_arm_matched_error())" + b[e:]
    mh = re.search(HDR, b)
    GH = "proof { lemma_first_hit(match_expr.arms@, detached_source, base_env, arm_ix as int); lemma_first_hit(match_expr.arms@, detached_source, base_env, arm_ix + 1); }"
    DEC = "        decreases match_expr.arms@.len() - w_,\n"
    if mh.group(1):
        hdr = ("let mut w_: usize = 0;\n    while w_ < match_expr.arms.len()\n" + MATCH_INV.replace("IX", "(match_expr.arms.len() - w_)").replace("CNT", "w_") + "        w_ <= match_expr.arms@.len(),\n" + DEC
               + "    { let arm_ix = match_expr.arms.len() - 1 - w_; w_ += 1; let arm = &match_expr.arms[arm_ix];\n        " + GH)
    else:
        hdr = ("let mut w_: usize = 0;\n    while w_ < match_expr.arms.len()\n" + MATCH_INV.replace("IX", "w_").replace("CNT", "w_") + "        w_ <= match_expr.arms@.len(),\n" + DEC
               + "    { let arm_ix = w_; w_ += 1; let arm = &match_expr.arms[arm_ix];\n        " + GH)
    b = b[:mh.start()] + hdr + b[mh.end():]
    if re.search(r"\b(MechError|value_contains_empty|is_identity_option_matrix_arm|cfg|crate)\b", b):
        raise AnchorLost("match_expression: the arm loop is outside the transcription rules")
    return ("fn match_arms(match_expr: &MatchExpression, detached_source: Value, base_env: Environment, p: &mut Interpreter) -> (res: Result<Value, MechError>)\n"
            + MATCH_ENS + "{\n    proof { lemma_first_hit(match_expr.arms@, detached_source, base_env, 0); }\n" + b + "\n}\n")


# ---------------------------------------------------------------------------------------------------------------------
# broadcast of a single-argument scalar function over a matrix
def _bcast_model():
    import os
    return open(os.path.join(os.path.dirname(os.path.dirname(os.path.abspath(__file__))), "contracts", "C16", "bcastmodel.rs")).read()


BCAST_ENS = """  ensures ({
    let f = *fxn_def; let args = input_arg_values@;
    let src = dv(args[0]);
    &&& (!applicable(f, args) ==> (res matches Ok(None)) && final(p).log@ == old(p).log@)
    &&& (applicable(f, args) ==> (match (ka(f.code.input@[0].kind.kind), ka(f.code.output@[0].kind.kind)) {
          (Some(ik), Some(ok)) => if ik is Matrix || mlv(src) is None { (res matches Ok(None)) && final(p).log@ == old(p).log@ } else if ik != ok { true /* differing input / output kinds: the property does not say; nothing is claimed */ } else {
              let els = mlv(src).unwrap();
              match map_f(f.id, els, els.len() as int, old(p).log@) {
                // the matrix, of the source's shape, of the function applied to each element -- each element once, in order
                Some(outs) => (res matches Ok(Some(v)) && v == assemble(ok, outs, shp(src).0, shp(src).1)) && final(p).log@ == old(p).log@ + els,
                None => res is Err,
              }
            },
          _ => res is Err,
        }))
  }),
"""


def bcast_fn(text, features):
    """`try_broadcast_user_function` (whole body): B1 `#[cfg(..)]` evaluated; B2 `kind_annotation(&X, p)?.to_value_kind(..)?` -> `expected_kind_of(&X, p)?`;
    B3 `for element in elements {` -> `for i_ in 0..elements.len() { let element = vec_take(&elements, i_);` (consuming iteration); B4 `crate::patterns::` dropped;
    `MResult<T>` -> `Result<T, MechError>`, `p: &Interpreter` -> `&mut Interpreter` (ghost call log)"""
    sig, body = extract_fn(text, "try_broadcast_user_function")
    if len(vlib.param_names(sig)) != 3:
        raise AnchorLost("try_broadcast_user_function: parameter list changed")
    b = re.sub(r"//[^\n]*", "", body[body.index("{") + 1:body.rindex("}")]).replace("\r", "")
    b = vlib.canon_bindings(sig, b, ["fxn_def", "input_arg_values", "p"], ['source', 'input_kind', 'output_kind', 'elements', 'outputs', 'element', 'shape'])
    b = apply_cfg(b, features)
    b = re.sub(r"kind_annotation\(\s*&((?:\w|\.|\[|\])+)\s*,\s*p\s*\)\s*\?\s*\.to_value_kind\((?:[^()]|\([^()]*\))*\)\s*\?", r"expected_kind_of(&\1, p)?", b)
    b = b.replace("crate::patterns::", "")
    INV = ("    invariant elements@.len() == mlv(source).unwrap().len(), mlv(source) == Some(elements@), i_ <= elements@.len(),\n"
           "      applicable(*fxn_def, input_arg_values@), source == dv(input_arg_values@[0]), ka(fxn_def.code.input@[0].kind.kind) == Some(input_kind),\n"
           "      ka(fxn_def.code.output@[0].kind.kind) == Some(output_kind), !(input_kind is Matrix),\n"
           "      p.log@ == old(p).log@ + elements@.subrange(0, i_ as int),\n"
           "      map_f(fxn_def.id, elements@, i_ as int, old(p).log@) == Some(outputs@),\n")
    b, n = re.subn(r"for\s+element\s+in\s+elements\s*\{", "for i_ in 0..elements.len()\n" + INV + "  {\n    let element = vec_take(&elements, i_);\n    proof { reveal_with_fuel(map_f, 2); lemma_map_f_none(fxn_def.id, elements@, i_ + 1, elements@.len() as int, old(p).log@); assert(elements@.subrange(0, i_ + 1) =~= elements@.subrange(0, i_ as int).push(elements@[i_ as int])); assert(old(p).log@ + elements@.subrange(0, i_ + 1) =~= (old(p).log@ + elements@.subrange(0, i_ as int)).push(elements@[i_ as int])); }", b)
    if n != 1:
        raise AnchorLost("try_broadcast_user_function: the loop over the elements not found")
    b = re.sub(r"(let\s+shape\s*=)", r"proof { assert(elements@.subrange(0, elements@.len() as int) =~= elements@); assert(old(p).log@ + Seq::<Value>::empty() =~= old(p).log@); }\n  \1", b, count=1)
    if re.search(r"\b(kind_annotation\(|to_value_kind|cfg|crate)\b", b):
        raise AnchorLost("try_broadcast_user_function: statements outside the transcription rules")
    return ("fn try_broadcast_user_function(fxn_def: &FunctionDefinition, input_arg_values: &Vec<Value>, p: &mut Interpreter) -> (res: Result<Option<Value>, MechError>)\n"
            + BCAST_ENS + "{\n" + b + "\n}\n")


# ---------------------------------------------------------------------------------------------------------------------
# the tail-call loop of execute_user_function
TAIL_MODEL = """
// model for the tail-call loop of `execute_user_function` (src/interpreter/src/functions.rs): the match-arm body of a function runs in a loop; each
// round opens a scope, binds the current arguments, runs the arms; a `Return` ends the call, a `TailCall` replaces the arguments.  What the arms do
// with given arguments is an arbitrary function `arms(f, args)` (its own contract: C16.verus.execute_function_match_arms.*).
#[derive(Clone, Copy, PartialEq, Eq, Structural)]
pub struct Value { pub id: u64 }
pub struct FunctionDefinition { pub id: u64 }
pub struct Interpreter { pub depth: Ghost<int> }             // number of function scopes currently open
pub struct MechError { pub id: u64 }
pub struct FunctionScope { pub id: u64 }
pub enum FunctionCallStep { Return(Value), TailCall(Vec<Value>) }
pub enum StepV { Return(Value), TailCall(Seq<Value>), Fail }
pub uninterp spec fn arms(f: u64, args: Seq<Value>) -> StepV;
pub uninterp spec fn binds(f: u64, args: Seq<Value>) -> bool;   // bind_function_inputs succeeds
impl FunctionScope {
  #[verifier::external_body]
  pub fn enter(p: &mut Interpreter) -> (s: FunctionScope) ensures final(p).depth@ == old(p).depth@ + 1, { unimplemented!() }
}
#[verifier::external_body]
pub fn drop_scope(s: FunctionScope, p: &mut Interpreter) ensures final(p).depth@ == old(p).depth@ - 1, { unimplemented!() }       // drop(scope)
#[verifier::external_body]
pub fn bind_function_inputs(f: &FunctionDefinition, args: &Vec<Value>, p: &mut Interpreter) -> (r: Result<(), MechError>)
  ensures final(p).depth@ == old(p).depth@, r is Ok == binds(f.id, args@),
{ unimplemented!() }
#[verifier::external_body]
pub fn execute_function_match_arms(f: &FunctionDefinition, args: &Vec<Value>, p: &mut Interpreter) -> (r: Result<FunctionCallStep, MechError>)
  ensures final(p).depth@ == old(p).depth@,
    (match r { Ok(FunctionCallStep::Return(v)) => arms(f.id, args@) == StepV::Return(v), Ok(FunctionCallStep::TailCall(n)) => arms(f.id, args@) == StepV::TailCall(n@), Err(_) => arms(f.id, args@) is Fail }),
{ unimplemented!() }
#[verifier::external_body]
pub fn clone_args(v: &Vec<Value>) -> (r: Vec<Value>) ensures r@ == v@, { unimplemented!() }
// ---- THE CONTRACT (C16): the result is what the recurrence defines -- a chain of argument lists, each the tail call of the previous one, ending in a Return
pub open spec fn unfolds(f: u64, chain: Seq<Seq<Value>>, v: Value) -> bool {
  chain.len() > 0 && (forall|i: int| 0 <= i < chain.len() ==> binds(f, #[trigger] chain[i]))
  && (forall|i: int| 0 <= i < chain.len() - 1 ==> arms(f, #[trigger] chain[i]) == StepV::TailCall(chain[i + 1]))
  && arms(f, chain[chain.len() - 1]) == StepV::Return(v)
}
pub open spec fn is_recurrence_value(f: u64, args: Seq<Value>, v: Value) -> bool { exists|chain: Seq<Seq<Value>>| chain.len() > 0 && chain[0] == args && unfolds(f, chain, v) }
"""


def tail_loop_fn(text):
    """(F) `execute_user_function`: the match-arm branch `if !fxn_def.code.match_arms.is_empty() { .. }` from `let mut current_args = input_arg_values.clone();` to its end.
    The branch's value is the loop's value, so for a trailing `loop {..}` `break X` -> `return X`; for `let R = loop {..}; ..; R` the loop gets a result slot
    (`R_slot = Some(X); break;` / `let R = R_slot.unwrap();`, Verus has no break-with-value).  `drop(scope)` -> `drop_scope(scope, p)` (the model counts open scopes);
    `input_arg_values.clone()` -> `clone_args(input_arg_values)`; the type annotation of `step` is kept.  Ghost: the chain of argument lists, and whether the current list has
    been bound (set after each `bind_function_inputs(fxn_def, &current_args, p)?`, reset when `current_args` is replaced).  Termination is NOT claimed (partial correctness)."""
    sig, body = extract_fn(text, "execute_user_function")
    b0 = re.sub(r"//[^\n]*", "", body).replace("\r", "")
    mi = find_code(b0, r"if\s+!\s*fxn_def\.code\.match_arms\.is_empty\(\)\s*\{")
    if not mi:
        raise AnchorLost("execute_user_function: the match-arm branch `if !fxn_def.code.match_arms.is_empty() {` not found")
    blk = b0[mi.end():match_brace(b0, mi.end() - 1) - 1]
    a = re.search(r"let\s+mut\s+current_args\s*:\s*Vec<Value>\s*=\s*input_arg_values\.clone\(\)\s*;", blk)
    if not a or blk[:a.start()].strip():
        raise AnchorLost("execute_user_function: the match-arm branch does not start with `let mut current_args: Vec<Value> = input_arg_values.clone();`")
    b = blk[a.start():]
    loops = vlib.find_all_code(b, r"\bloop\s*\{")
    if len(loops) != 1 or re.search(r"\b(for|while)\b", b):
        raise AnchorLost("execute_user_function: the match-arm branch must contain exactly one `loop`")
    ml = loops[0]
    le = match_brace(b, ml.end() - 1)
    pre, loop, post = b[:ml.start()], b[ml.start():le], b[le:]
    mlet = re.search(r"let\s+(\w+)\s*=\s*$", pre)
    opened = len(re.findall(r"FunctionScope::enter\(", pre)) - len(re.findall(r"\bdrop\(\s*scope\s*\)", pre))      # scopes open when the loop is entered
    INV = ("      invariant p.depth@ == d0, d0 == old(p).depth@ + %d, chain.len() > 0, chain[0] == input_arg_values@, chain[chain.len() - 1] == current_args@,\n"
           "        last_bound == %s, last_bound ==> binds(fxn_def.id, chain[chain.len() - 1]),\n"
           "        forall|i: int| 0 <= i < chain.len() - 1 ==> binds(fxn_def.id, #[trigger] chain[i]) && arms(fxn_def.id, chain[i]) == StepV::TailCall(chain[i + 1]),\n") % (opened, "true" if re.search(r"bind_function_inputs\(\s*fxn_def\s*,\s*&current_args\s*,\s*p\s*\)\?", pre) else "false")
    if mlet:
        R = mlet.group(1)
        if not post.lstrip().startswith(";") or not re.search(r"\b%s\s*$" % R, post.rstrip()):
            raise AnchorLost("execute_user_function: `let %s = loop {..}` is not followed by statements ending in `%s`" % (R, R))
        pre = pre[:mlet.start()] + "let mut %s_slot: Option<Result<Value, MechError>> = None;\n    " % R
        loop, n = re.subn(r"\bbreak\s+(Ok\(\s*\w+\s*\))\s*,", r"{ proof { assert(unfolds(fxn_def.id, chain, value)); } %s_slot = Some(\1); break; }" % R, loop)
        head = ("let ghost d0 = p.depth@;\n    loop\n      invariant_except_break %s_slot is None,\n" % R + INV +
                "      ensures p.depth@ == d0, %s_slot is Some, forall|v: Value| %s_slot == Some(Ok::<Value, MechError>(v)) ==> is_recurrence_value(fxn_def.id, input_arg_values@, v),\n    {" % (R, R))
        post = "\n    let %s = %s_slot.unwrap()" % (R, R) + post
    else:
        if post.strip():
            raise AnchorLost("execute_user_function: statements follow the tail-call `loop`")
        loop, n = re.subn(r"\bbreak\s+(Ok\(\s*\w+\s*\))\s*,", r"{ proof { assert(unfolds(fxn_def.id, chain, value)); } return \1; }", loop)
        head = "let ghost d0 = p.depth@;\n    loop\n" + INV + "    {"
    loop, n2 = re.subn(r"\bloop\s*\{", lambda m_: head, loop, count=1)
    b = pre + loop + post
    b, n0 = re.subn(r"(let\s+mut\s+current_args\s*:\s*Vec<Value>\s*=\s*)input_arg_values\.clone\(\)\s*;",
                    r"\1clone_args(input_arg_values);\n    let ghost mut chain: Seq<Seq<Value>> = seq![current_args@];\n    let ghost mut last_bound: bool = false;", b)
    b = re.sub(r"\bdrop\(\s*scope\s*\)", "drop_scope(scope, p)", b)
    b, nb = re.subn(r"(bind_function_inputs\(\s*fxn_def\s*,\s*&current_args\s*,\s*p\s*\)\?\s*;)", r"\1 proof { last_bound = true; }", b)
    b, n3 = re.subn(r"(current_args\s*=\s*next_args\s*;)", r"proof { chain = chain.push(next_args@); last_bound = false; }\n          \1", b)
    if (n0, n, n2, n3) != (1, 1, 1, 1) or re.search(r"\bbreak\s+\w", b) or len(re.findall(r"\bcurrent_args\s*=[^=]", b)) != 1:
        raise AnchorLost("execute_user_function: the tail-call loop is outside the transcription rules %r" % ((n0, n, n2, n3),))
    return ("#[verifier::exec_allows_no_decreases_clause]\nfn tail_call_loop(fxn_def: &FunctionDefinition, input_arg_values: &Vec<Value>, p: &mut Interpreter) -> (res: Result<Value, MechError>)\n"
            "  ensures res matches Ok(v) ==> is_recurrence_value(fxn_def.id, input_arg_values@, v),\n"
            "    // every scope opened is closed again (on the paths that do not fail)\n    res is Ok ==> final(p).depth@ == old(p).depth@,\n{\n    " + b + "\n}\n")


PLAIN_MODEL = """
// the plain (statement-list) body of a user function
pub struct StatementNode { pub id: u64 }
pub struct FunctionCode { pub statements: Vec<StatementNode> }
pub struct FunctionDef { pub id: u64, pub code: FunctionCode }
pub struct Interp { pub depth: Ghost<int>, pub log: Ghost<Seq<u64>> }          // open scopes; ids of the statements evaluated so far
pub struct Scope { pub id: u64 }
pub uninterp spec fn st_ok(s: u64, before: Seq<u64>) -> bool;                   // statement() succeeds
pub uninterp spec fn binds_plain(f: u64, args: Seq<Value>) -> bool;
pub uninterp spec fn output_of(f: u64, log: Seq<u64>) -> Option<Value>;         // collect_function_output
impl Scope { #[verifier::external_body] pub fn enter(p: &mut Interp) -> (s: Scope) ensures final(p).depth@ == old(p).depth@ + 1, final(p).log == old(p).log, { unimplemented!() } }
#[verifier::external_body]
pub fn drop_plain_scope(s: Scope, p: &mut Interp) ensures final(p).depth@ == old(p).depth@ - 1, final(p).log == old(p).log, { unimplemented!() }
#[verifier::external_body]
pub fn bind_plain_inputs(f: &FunctionDef, args: &Vec<Value>, p: &mut Interp) -> (r: Result<(), MechError>)
  ensures final(p).depth == old(p).depth, final(p).log == old(p).log, r is Ok == binds_plain(f.id, args@), { unimplemented!() }
#[verifier::external_body]
pub fn statement(s: &StatementNode, env: Option<&u64>, p: &mut Interp) -> (r: Result<Value, MechError>)
  ensures final(p).depth == old(p).depth, r is Ok == st_ok(s.id, old(p).log@), final(p).log@ == old(p).log@.push(s.id), { unimplemented!() }
#[verifier::external_body]
pub fn collect_function_output(p: &mut Interp, f: &FunctionDef) -> (r: Result<Value, MechError>)
  ensures final(p).depth == old(p).depth, final(p).log == old(p).log, (match r { Ok(v) => output_of(f.id, old(p).log@) == Some(v), Err(_) => output_of(f.id, old(p).log@) is None }), { unimplemented!() }
pub open spec fn ids_of(ss: Seq<StatementNode>) -> Seq<u64> { ss.map(|i: int, s: StatementNode| s.id) }
pub open spec fn all_st_ok(ss: Seq<StatementNode>, log0: Seq<u64>, n: int) -> bool { forall|k: int| 0 <= k < n ==> st_ok(#[trigger] ss[k].id, log0 + ids_of(ss.subrange(0, k))) }
"""


def plain_body_fn(text):
    """(G) `execute_user_function`: the else-branch of `if !fxn_def.code.match_arms.is_empty() {..} else {..}` (plain statement body) as `fn plain_body(fxn_def, input_arg_values, p)`:
    `FunctionScope::enter(p)` -> `Scope::enter(p)`, `bind_function_inputs` -> `bind_plain_inputs`, `drop(scope)` -> `drop_plain_scope(scope, p)`,
    `for statement_node in &fxn_def.code.statements` -> index loop"""
    sig, body = extract_fn(text, "execute_user_function")
    b0 = re.sub(r"//[^\n]*", "", body).replace("\r", "")
    mi = find_code(b0, r"if\s+!\s*fxn_def\.code\.match_arms\.is_empty\(\)\s*\{")
    if not mi:
        raise AnchorLost("execute_user_function: the match-arm branch not found")
    e = match_brace(b0, mi.end() - 1)
    me = re.match(r"\s*else\s*\{", b0[e:])
    if not me:
        raise AnchorLost("execute_user_function: the plain-body else branch not found")
    blk = b0[e + me.end():match_brace(b0, e + me.end() - 1) - 1]
    b = blk.replace("FunctionScope::enter(p)", "Scope::enter(p)").replace("bind_function_inputs(", "bind_plain_inputs(")
    b = re.sub(r"\bdrop\(\s*scope\s*\)", "drop_plain_scope(scope, p)", b)
    b, n = re.subn(r"for\s+(\w+)\s+in\s+&fxn_def\.code\.statements\s*\{",
                   lambda m: ("for i_ in 0..fxn_def.code.statements.len()\n      invariant p.depth@ == old(p).depth@ + 1, p.log@ == old(p).log@ + ids_of(fxn_def.code.statements@.subrange(0, i_ as int)),\n"
                              "        all_st_ok(fxn_def.code.statements@, old(p).log@, i_ as int),\n    {\n      let %s = &fxn_def.code.statements[i_];\n"
                              "      proof { assert(ids_of(fxn_def.code.statements@.subrange(0, i_ + 1)) =~= ids_of(fxn_def.code.statements@.subrange(0, i_ as int)).push(fxn_def.code.statements@[i_ as int].id)); }" % m.group(1)), b)
    if n != 1 or re.search(r"\b(FunctionScope|bind_function_inputs)\b", b):
        raise AnchorLost("execute_user_function: the plain body is outside the transcription rules")
    b = re.sub(r"(let\s+result\s*=\s*collect_function_output)", r"proof { assert(fxn_def.code.statements@.subrange(0, fxn_def.code.statements@.len() as int) =~= fxn_def.code.statements@); }\n    \1", b, count=1)
    return ("fn plain_body(fxn_def: &FunctionDef, input_arg_values: &Vec<Value>, p: &mut Interp) -> (res: Result<Value, MechError>)\n"
            "  ensures (match res {\n"
            "      // a value is returned only when the inputs were bound, EVERY statement succeeded -- each evaluated once, in source order, after the ones before it -- and the\n"
            "      // output was collected from the state they left; the scope opened for the call is closed again\n"
            "      Ok(v) => binds_plain(fxn_def.id, input_arg_values@) && all_st_ok(fxn_def.code.statements@, old(p).log@, fxn_def.code.statements@.len() as int)\n"
            "               && final(p).log@ == old(p).log@ + ids_of(fxn_def.code.statements@) && output_of(fxn_def.id, final(p).log@) == Some(v) && final(p).depth@ == old(p).depth@,\n"
            "      Err(_) => true }),\n{\n" + b + "\n}\n")


def plain_unit(text):
    return vlib.verus_file([TAIL_MODEL, PLAIN_MODEL, plain_body_fn(text), vlib.verus_canary("canary_plain", "x: u64", [])])


def tail_unit(text):
    return vlib.verus_file([TAIL_MODEL, tail_loop_fn(text), vlib.verus_canary("canary_tail", "x: u64", [])])


# ---- variable patterns of pattern_matches_value_with_semantics (src/interpreter/src/patterns.rs) ------------------------------------------
PPATH = "src/interpreter/src/patterns.rs"
VARPAT_MODEL = """
#[derive(Clone, Copy, PartialEq, Eq, Structural)]
pub enum Value { Bool(bool), Other(u64) }
pub struct MechError { pub id: u64 }
pub struct Interpreter { pub id: u64 }
pub struct Ident { pub id: u64 }
pub uninterp spec fn ident_hash(i: Ident) -> u64;
impl Ident { #[verifier::external_body] pub fn hash(&self) -> (r: u64) ensures r == ident_hash(*self), { unimplemented!() } }
pub struct Var { pub name: Ident }
pub struct Expression { pub id: u64 }
#[derive(Clone, Copy, PartialEq, Eq, Structural)]
pub enum PatternMatchSemantics { Standard, OptionGuard }
// the environment of bindings made so far by the enclosing pattern (HashMap<u64, Value>)
pub struct Environment { pub m: Ghost<Map<u64, Value>> }
impl Environment {
  #[verifier::external_body]
  pub fn get(&self, k: &u64) -> (r: Option<&Value>)
    ensures (match r { Some(v) => self.m@.contains_key(*k) && self.m@[*k] == *v, None => !self.m@.contains_key(*k) }),
  { unimplemented!() }
  #[verifier::external_body]
  pub fn insert(&mut self, k: u64, v: Value) ensures final(self).m@ == old(self).m@.insert(k, v), { unimplemented!() }
}
pub uninterp spec fn var_id_of(e: Expression) -> Option<u64>;                       // extract_pattern_variable_id: the expression is a (wrapped) variable
pub uninterp spec fn ev(e: Expression, env: Map<u64, Value>) -> Option<Value>;      // expression(e, Some(env), p); None = error
pub uninterp spec fn vmatch(a: Value, b: Value) -> bool;                            // values_match
pub uninterp spec fn detach(v: Value) -> Value;                                     // deep_detach_value
#[verifier::external_body]
pub fn extract_pattern_variable_id(e: &Expression) -> (r: Option<u64>) ensures r == var_id_of(*e), { unimplemented!() }
#[verifier::external_body]
pub fn expression(e: &Expression, env: Option<&Environment>, p: &Interpreter) -> (r: Result<Value, MechError>)
  requires env is Some,
  ensures (match r { Ok(v) => ev(*e, env.unwrap().m@) == Some(v), Err(_) => ev(*e, env.unwrap().m@) is None }),
{ unimplemented!() }
#[verifier::external_body]
pub fn values_match(a: &Value, b: &Value) -> (r: bool) ensures r == vmatch(*a, *b), { unimplemented!() }
#[verifier::external_body]
pub fn deep_detach_value(v: &Value) -> (r: Value) ensures r == detach(*v), { unimplemented!() }
// ---- THE CONTRACT (C16: "pattern variables bound to the matched parts"): a variable pattern whose name is NOT yet bound matches anything and
// binds the name to the matched part; a name that IS already bound (a variable repeated in the pattern) matches only a part equal to the
// value it is bound to, and never rebinds it
pub open spec fn var_rule(id: u64, v: Value, before: Map<u64, Value>, after: Map<u64, Value>, res: Result<bool, MechError>) -> bool {
  if before.contains_key(id) { res == Ok::<bool, MechError>(before[id] == v) && after == before }
  else { res == Ok::<bool, MechError>(true) && after == before.insert(id, v) }
}
// any other expression pattern (a literal, a formula): it is evaluated under the bindings made so far and matches iff its value matches the part (under option-guard
// semantics a boolean-valued expression IS the answer); it binds nothing; a failing evaluation is an error
pub open spec fn expr_rule(e: Expression, v: Value, sem: PatternMatchSemantics, before: Map<u64, Value>, after: Map<u64, Value>, res: Result<bool, MechError>) -> bool {
  after == before && (match ev(e, before) {
    None => res is Err,
    Some(x) => res == Ok::<bool, MechError>(match (sem, x) { (PatternMatchSemantics::OptionGuard, Value::Bool(flag)) => flag, _ => vmatch(detach(x), v) }),
  })
}
"""


def varpat_fns(text, features=None):
    """the two expression arms of `pattern_matches_value_with_semantics`: (a) `Pattern::Expression(Expression::Var(var)) => {..}` (when the arm
    exists: the generic arm below subsumes it) as `fn var_arm(var, detached_value, env)`, (b) the arm `Pattern::Expression(expr) => {..}` (whole) as
    `fn expr_arm(expr, detached_value, env, p, semantics)`; `existing == &detached_value` -> `*existing == detached_value`, `Some(env)` -> `Some(&*env)`
    (explicit reborrow), `*flag.borrow()` -> `*flag`, `MResult` -> `Result<_, MechError>`; cfg attributes evaluated for the default features"""
    sig, body = extract_fn(text, "pattern_matches_value_with_semantics")
    b = re.sub(r"//[^\n]*", "", body).replace("\r", "")
    if features is not None:
        b = apply_cfg(b, features)
    out, fns = "", []
    def fix(s):
        s = re.sub(r"\b(\w+)\s*==\s*&(\w+)", r"*\1 == \2", s)
        s = re.sub(r"\bSome\(\s*env\s*\)", "Some(&*env)", s)
        s = re.sub(r"\*(\w+)\.borrow\(\)", r"*\1", s)
        return s
    ma = re.search(r"Pattern::Expression\(\s*Expression::Var\(\s*(\w+)\s*\)\s*\)\s*=>\s*\{", b)
    if ma:
        e = match_brace(b, ma.end() - 1)
        arm = fix(b[ma.end():e - 1])
        if re.search(r"\b(expression|values_match|semantics|p)\b", arm):
            raise AnchorLost("pattern_matches_value_with_semantics: the variable arm is outside the transcription rules")
        out += ("fn var_arm(%s: &Var, detached_value: Value, env: &mut Environment) -> (res: Result<bool, MechError>)\n"
                "  ensures var_rule(ident_hash(%s.name), detached_value, old(env).m@, final(env).m@, res),\n{\n" % (ma.group(1), ma.group(1))
                + arm + "\n}\n")
        fns.append("var_arm")
    mb = re.search(r"Pattern::Expression\(\s*(\w+)\s*\)\s*=>\s*\{", b)
    if not mb:
        raise AnchorLost("pattern_matches_value_with_semantics: the arm `Pattern::Expression(expr)` not found")
    ex = mb.group(1)
    arm = fix(b[mb.end():match_brace(b, mb.end() - 1) - 1])
    if re.search(r"\b(borrow|cfg)\b", arm):
        raise AnchorLost("pattern_matches_value_with_semantics: the expression arm is outside the transcription rules")
    out += ("fn expr_arm(%s: &Expression, detached_value: Value, env: &mut Environment, p: &Interpreter, semantics: PatternMatchSemantics) -> (res: Result<bool, MechError>)\n"
            "  ensures (match var_id_of(*%s) {\n"
            "      Some(id) => var_rule(id, detached_value, old(env).m@, final(env).m@, res),\n"
            "      None => expr_rule(*%s, detached_value, semantics, old(env).m@, final(env).m@, res) }),\n{\n" % (ex, ex, ex) + arm + "\n}\n")
    fns.append("expr_arm")
    return out, fns


def varpat_unit(text, features=None):
    body, fns = varpat_fns(text, features)
    return "use vstd::prelude::*;\nverus! {\n" + VARPAT_MODEL + body + vlib.verus_canary("canary_varpat", "x: u64", []) + "\n} // verus!\nfn main() {}\n", fns


# ---- pattern_matches_arguments (whole) and the tuple arm of pattern_matches_value_with_semantics -------------------------------------------
TUPLEPAT_MODEL = """
pub struct PatternTuple(pub Vec<Pattern>);
pub enum Pattern { Tuple(PatternTuple), Other(u64) }
pub struct MechTuple { pub elements: Vec<Value> }
pub enum Value { Tuple(MechTuple), Other(u64) }
pub struct MechError { pub id: u64 }
pub struct Interpreter { pub id: u64 }
#[derive(Clone, Copy)]
pub struct PatternMatchSemantics { pub id: u64 }
// the environment of bindings: an abstract state the matcher reads and extends
pub struct Environment { pub st: Ghost<int> }
// the matcher on ONE (pattern, value) pair -- what pattern_matches_value / the recursive call returns, and the environment it leaves: arbitrary functions
pub uninterp spec fn pm_res(pat: Pattern, v: Value, sem: u64, st: int) -> Option<bool>;       // None = error
pub uninterp spec fn pm_env(pat: Pattern, v: Value, sem: u64, st: int) -> int;
pub uninterp spec fn standard() -> u64;                                                          // PatternMatchSemantics::Standard
#[verifier::external_body]
pub fn pattern_matches_value(pattern: &Pattern, value: &Value, env: &mut Environment, p: &Interpreter) -> (r: Result<bool, MechError>)
  ensures (match r { Ok(b) => pm_res(*pattern, *value, standard(), old(env).st@) == Some(b), Err(_) => pm_res(*pattern, *value, standard(), old(env).st@) is None }),
    final(env).st@ == pm_env(*pattern, *value, standard(), old(env).st@),
{ unimplemented!() }
#[verifier::external_body]
pub fn pattern_matches_value_with_semantics_rec(pattern: &Pattern, value: &Value, env: &mut Environment, p: &Interpreter, semantics: PatternMatchSemantics) -> (r: Result<bool, MechError>)
  ensures (match r { Ok(b) => pm_res(*pattern, *value, semantics.id, old(env).st@) == Some(b), Err(_) => pm_res(*pattern, *value, semantics.id, old(env).st@) is None }),
    final(env).st@ == pm_env(*pattern, *value, semantics.id, old(env).st@),
{ unimplemented!() }
pub open spec fn zip_len(a: int, b: int) -> int { if a <= b { a } else { b } }
#[verifier::external_body]
pub fn zip_count(a: usize, b: usize) -> (r: usize) ensures r == zip_len(a as int, b as int), { unimplemented!() }
// ---- THE CONTRACT (C16: "an arm whose pattern matches the ARGUMENTS"): a tuple pattern matches a list of values iff there are as many element patterns as
// values and every element pattern matches its value, tested left to right in ONE environment (so a variable bound by an earlier element constrains the
// later ones); the first element that does not match (or fails) ends the test
pub open spec fn all_match(pats: Seq<Pattern>, vals: Seq<Value>, k: int, sem: u64, st: int) -> (Option<bool>, int)
  decreases pats.len() - k,
{
  if k < 0 || k >= pats.len() || k >= vals.len() { (Some(true), st) } else {
    let st1 = pm_env(pats[k], vals[k], sem, st);
    match pm_res(pats[k], vals[k], sem, st) {
      None => (None, st1),
      Some(b) => if b { all_match(pats, vals, k + 1, sem, st1) } else { (Some(false), st1) },
    }
  }
}
pub open spec fn tuple_match(pats: Seq<Pattern>, vals: Seq<Value>, sem: u64, st: int) -> (Option<bool>, int) {
  if pats.len() != vals.len() { (Some(false), st) } else { all_match(pats, vals, 0, sem, st) }
}
pub open spec fn arguments_match(pattern: Pattern, args: Seq<Value>, st: int) -> (Option<bool>, int) {
  if args.len() == 1 { (pm_res(pattern, args[0], standard(), st), pm_env(pattern, args[0], standard(), st)) } else {
    match pattern { Pattern::Tuple(t) => tuple_match(t.0@, args, standard(), st), _ => (Some(false), st) }
  }
}
pub open spec fn value_tuple_match(pats: Seq<Pattern>, v: Value, sem: u64, st: int) -> (Option<bool>, int) {
  match v { Value::Tuple(t) => tuple_match(pats, t.elements@, sem, st), _ => (Some(false), st) }
}
pub open spec fn outcome(r: Result<bool, MechError>) -> Option<bool> { match r { Ok(b) => Some(b), Err(_) => None } }
"""


def _zip_loops(b, sem, whole):
    """`for (a, b) in XS.iter().zip(YS.iter()) {` -> index loop over zip_count(XS.len(), YS.len()) with the invariant `what remains to be tested from here == the whole test`"""
    def one(m):
        a_, b_, xs, ys = m.group(1), m.group(2), m.group(3), m.group(4)
        return ("let zn_ = zip_count(%s.len(), %s.len());\n      for z_ in 0..zn_\n"
                "        invariant zn_ == zip_len(%s@.len() as int, %s@.len() as int), %s@.len() == %s@.len(),\n"
                "          st0 == old(env).st@, %s == all_match(%s@, %s@, z_ as int, %s, env.st@),\n"
                "      {\n        let %s = &%s[z_]; let %s = &%s[z_];" % (xs, ys, xs, ys, xs, ys, whole, xs, ys, sem, a_, xs, b_, ys))
    return re.subn(r"for\s+\(\s*(\w+)\s*,\s*(\w+)\s*\)\s+in\s+([\w\.]+)\.iter\(\)\.zip\(\s*([\w\.]+)\.iter\(\)\s*\)\s*\{", one, b)


def tuplepat_fns(text, features):
    """(a) `pattern_matches_arguments` (whole body), (b) the arm `Pattern::Tuple(pattern_tuple) => {..}` of `pattern_matches_value_with_semantics` as
    `fn tuple_arm(pattern_tuple, detached_value, env, p, semantics)`: `for (a, b) in XS.iter().zip(YS.iter())` -> index loop over min(len) (zip semantics),
    `MResult<bool>` -> `Result<bool, MechError>`, `T.borrow()` on the tuple cell -> `&T`, the recursive call -> the stand-in `.._rec` (modular recursion);
    cfg attributes evaluated for the default features"""
    out, fns = "", []
    sig, body = extract_fn(text, "pattern_matches_arguments")
    b = apply_cfg(re.sub(r"//[^\n]*", "", body).replace("\r", ""), features).strip()[1:-1]
    b, n = _zip_loops(b, "standard()", "arguments_match(*pattern, args@, st0)")
    if n != 1 or re.search(r"\b(iter|zip)\b", b):
        raise AnchorLost("pattern_matches_arguments: the element loop is outside the transcription rules")
    out += ("fn pattern_matches_arguments(pattern: &Pattern, args: &Vec<Value>, env: &mut Environment, p: &Interpreter) -> (res: Result<bool, MechError>)\n"
            "  ensures (outcome(res), final(env).st@) == arguments_match(*pattern, args@, old(env).st@),\n{\n  let ghost st0 = env.st@;\n" + b + "\n}\n")
    fns.append("pattern_matches_arguments")
    sig, body = extract_fn(text, "pattern_matches_value_with_semantics")
    b = apply_cfg(re.sub(r"//[^\n]*", "", body).replace("\r", ""), features)
    m = re.search(r"Pattern::Tuple\(\s*(\w+)\s*\)\s*=>\s*\{", b)
    if not m:
        raise AnchorLost("pattern_matches_value_with_semantics: the arm `Pattern::Tuple(..)` not found")
    arm = b[m.end():match_brace(b, m.end() - 1) - 1]
    pt = m.group(1)
    arm = re.sub(r"\b(\w+)\.borrow\(\)", r"&\1", arm)
    arm = arm.replace("pattern_matches_value_with_semantics(", "pattern_matches_value_with_semantics_rec(")
    arm, n = _zip_loops(arm, "semantics.id", "value_tuple_match(%s.0@, detached_value, semantics.id, st0)" % pt)
    if n != 1 or re.search(r"\b(iter|zip|borrow)\b", arm):
        raise AnchorLost("pattern_matches_value_with_semantics: the tuple arm is outside the transcription rules")
    out += ("fn tuple_arm(%s: &PatternTuple, detached_value: Value, env: &mut Environment, p: &Interpreter, semantics: PatternMatchSemantics) -> (res: Result<bool, MechError>)\n"
            "  ensures (outcome(res), final(env).st@) == value_tuple_match(%s.0@, detached_value, semantics.id, old(env).st@),\n{\n  let ghost st0 = env.st@;\n" % (pt, pt) + arm + "\n}\n")
    fns.append("tuple_arm")
    return out, fns


def tuplepat_unit(text, features):
    body, fns = tuplepat_fns(text, features)
    return "use vstd::prelude::*;\nverus! {\n" + TUPLEPAT_MODEL + body + vlib.verus_canary("canary_tuplepat", "x: u64", []) + "\n} // verus!\nfn main() {}\n", fns


# ---- the array arm of pattern_matches_value_with_semantics -----------------------------------------------------------------------------------
ARRAYPAT_MODEL = """
pub struct PatternTuple(pub Vec<Pattern>);
pub struct PatternArraySpread { pub binding: Option<Box<Pattern>> }
pub struct PatternArray { pub prefix: Vec<Pattern>, pub spread: Option<PatternArraySpread>, pub suffix: Vec<Pattern> }
pub enum Pattern { Tuple(PatternTuple), Array(PatternArray), Other(u64) }
pub struct Value { pub id: u64 }
pub struct MechError { pub id: u64 }
pub struct Interpreter { pub id: u64 }
#[derive(Clone, Copy)]
pub struct PatternMatchSemantics { pub id: u64 }
pub struct Environment { pub st: Ghost<int> }
pub uninterp spec fn pm_res(pat: Pattern, v: Value, sem: u64, st: int) -> Option<bool>;       // the matcher on one (pattern, value) pair; None = error
pub uninterp spec fn pm_env(pat: Pattern, v: Value, sem: u64, st: int) -> int;                 // .. and the environment it leaves
pub uninterp spec fn mlv(v: Value) -> Option<Seq<Value>>;                                        // matrix_like_values: the elements of a matrix-like value
pub uninterp spec fn middle(v: Value, a: int, b: int) -> Value;                                  // capture_middle_matrix: elements a..b as a row
#[verifier::external_body]
pub fn pattern_matches_value_with_semantics_rec(pattern: &Pattern, value: &Value, env: &mut Environment, p: &Interpreter, semantics: PatternMatchSemantics) -> (r: Result<bool, MechError>)
  ensures (match r { Ok(b) => pm_res(*pattern, *value, semantics.id, old(env).st@) == Some(b), Err(_) => pm_res(*pattern, *value, semantics.id, old(env).st@) is None }),
    final(env).st@ == pm_env(*pattern, *value, semantics.id, old(env).st@),
{ unimplemented!() }
#[verifier::external_body]
pub fn matrix_like_values(v: &Value) -> (r: Option<Vec<Value>>)
  ensures (match r { Some(x) => mlv(*v) == Some(x@), None => mlv(*v) is None }),
{ unimplemented!() }
#[verifier::external_body]
pub fn capture_middle_matrix(v: &Value, start: usize, end: usize) -> (r: Value) ensures r == middle(*v, start as int, end as int), { unimplemented!() }
pub open spec fn zip_len(a: int, b: int) -> int { if a <= b { a } else { b } }
#[verifier::external_body]
pub fn zip_count(a: usize, b: usize) -> (r: usize) ensures r == zip_len(a as int, b as int), { unimplemented!() }
pub open spec fn outcome(r: Result<bool, MechError>) -> Option<bool> { match r { Ok(b) => Some(b), Err(_) => None } }
// element patterns pats[k..] against vals[off+k ..], left to right in one environment, ending at the first that does not match or fails
pub open spec fn all_match_off(pats: Seq<Pattern>, vals: Seq<Value>, off: int, k: int, sem: u64, st: int) -> (Option<bool>, int)
  decreases pats.len() - k,
{
  if k < 0 || k >= pats.len() || off + k >= vals.len() { (Some(true), st) } else {
    let st1 = pm_env(pats[k], vals[off + k], sem, st);
    match pm_res(pats[k], vals[off + k], sem, st) {
      None => (None, st1),
      Some(b) => if b { all_match_off(pats, vals, off, k + 1, sem, st1) } else { (Some(false), st1) },
    }
  }
}
// ---- THE CONTRACT (C16: "an arm whose pattern matches"): an array pattern `[p1 .. pn, ...rest, s1 .. sm]` matches a matrix-like value iff the value has at least
// n + m elements (exactly n + m without a spread), the prefix patterns match the first n elements, the suffix patterns the last m, and the spread's binding (if any)
// matches the elements in between -- tested in that order in ONE environment
pub open spec fn after_suffix(pa: PatternArray, v: Value, values: Seq<Value>, sem: u64, r2: (Option<bool>, int)) -> (Option<bool>, int) {
  if r2.0 != Some(true) { r2 } else {
    let st2 = r2.1;
    if pa.spread is None && values.len() != pa.prefix@.len() + pa.suffix@.len() { (Some(false), st2) } else {
      match pa.spread {
        Some(sp) => match sp.binding {
          Some(b) => { let cap = middle(v, pa.prefix@.len() as int, values.len() - pa.suffix@.len()); (pm_res(*b, cap, sem, st2), pm_env(*b, cap, sem, st2)) },
          None => (Some(true), st2),
        },
        None => (Some(true), st2),
      }
    }
  }
}
pub open spec fn after_prefix(pa: PatternArray, v: Value, values: Seq<Value>, sem: u64, r1: (Option<bool>, int)) -> (Option<bool>, int) {
  if r1.0 != Some(true) { r1 } else { after_suffix(pa, v, values, sem, all_match_off(pa.suffix@, values, values.len() - pa.suffix@.len(), 0, sem, r1.1)) }
}
pub open spec fn array_match(pa: PatternArray, v: Value, sem: u64, st: int) -> (Option<bool>, int) {
  match mlv(v) {
    None => (Some(false), st),
    Some(values) => if values.len() < pa.prefix@.len() + pa.suffix@.len() { (Some(false), st) }
                    else { after_prefix(pa, v, values, sem, all_match_off(pa.prefix@, values, 0, 0, sem, st)) },
  }
}
"""


def arraypat_fn(text, features):
    """the arm `Pattern::Array(pattern_array) => {..}` of `pattern_matches_value_with_semantics` as `fn array_arm(pattern_array, detached_value, env, p, semantics)`: the two element
    loops `for (a, b) in PA.prefix.iter().zip(values.iter())` / `.. PA.suffix.iter().zip(values[suffix_start..].iter())` -> index loops over min(len) (zip semantics) reading
    `values[off + k]`; the recursive call -> the stand-in `.._rec`; `MResult` -> `Result<_, MechError>`; cfg attributes evaluated for the default features.
    ASSUMED: prefix.len() + suffix.len() does not overflow usize (two live Vecs)"""
    sig, body = extract_fn(text, "pattern_matches_value_with_semantics")
    b = apply_cfg(re.sub(r"//[^\n]*", "", body).replace("\r", ""), features)
    m = re.search(r"Pattern::Array\(\s*(\w+)\s*\)\s*=>\s*\{", b)
    if not m:
        raise AnchorLost("pattern_matches_value_with_semantics: the arm `Pattern::Array(..)` not found")
    pa = m.group(1)
    arm = b[m.end():match_brace(b, m.end() - 1) - 1]
    arm = re.sub(r"\s*\n\s*\.", ".", arm)                                   # method chains on one line
    arm = arm.replace("pattern_matches_value_with_semantics(", "pattern_matches_value_with_semantics_rec(")
    COMMON = ("mlv(detached_value) == Some(values@), values@.len() >= %s.prefix@.len() + %s.suffix@.len(), %s.prefix@.len() + %s.suffix@.len() <= usize::MAX, st0 == old(env).st@," % (pa, pa, pa, pa))
    def loop(a_, b_, xs, off, ylen, wrap):
        return ("let zn_ = zip_count(%s.len(), %s);\n      for z_ in 0..zn_\n"
                "        invariant zn_ == zip_len(%s@.len() as int, (%s) as int), %s\n"
                "          array_match(*%s, detached_value, semantics.id, st0) == %s(*%s, detached_value, values@, semantics.id, all_match_off(%s@, values@, (%s) as int, z_ as int, semantics.id, env.st@)),\n"
                "      {\n        let %s = &%s[z_]; let %s = &values[%s + z_];" % (xs, ylen, xs, ylen, COMMON, pa, wrap, pa, xs, off, a_, xs, b_, off))
    arm, n1 = re.subn(r"for\s+\(\s*(\w+)\s*,\s*(\w+)\s*\)\s+in\s+%s\.prefix\.iter\(\)\.zip\(\s*values\.iter\(\)\s*\)\s*\{" % pa,
                      lambda mm: loop(mm.group(1), mm.group(2), pa + ".prefix", "0", "values.len()", "after_prefix"), arm)
    arm, n2 = re.subn(r"for\s+\(\s*(\w+)\s*,\s*(\w+)\s*\)\s+in\s+%s\.suffix\.iter\(\)\.zip\(\s*values\[\s*(\w+)\s*\.\.\s*\]\.iter\(\)\s*\)\s*\{" % pa,
                      lambda mm: loop(mm.group(1), mm.group(2), pa + ".suffix", mm.group(3), "values.len() - %s" % mm.group(3), "after_suffix").replace(
                          "invariant zn_", "invariant %s == values@.len() - %s.suffix@.len(), zn_" % (mm.group(3), pa)), arm)
    if n2 == 0:
        # std's `rev()`: the suffix patterns zipped with the values walked from the back -- element k is values[len - 1 - k]; the contract still demands
        # the LAST |suffix| elements in order (named so that such a rewrite is judged, not lost)
        def rloop(mm):
            t = loop(mm.group(1), mm.group(2), pa + ".suffix", "values.len() - %s.suffix.len()" % pa, "%s.suffix.len()" % pa, "after_suffix")
            return t.replace("&values[values.len() - %s.suffix.len() + z_]" % pa, "&values[values.len() - 1 - z_]")
        arm, n2 = re.subn(r"for\s+\(\s*(\w+)\s*,\s*(\w+)\s*\)\s+in\s+%s\.suffix\.iter\(\)\.zip\(\s*values\.iter\(\)\.rev\(\)\s*\)\s*\{" % pa, rloop, arm)
    if (n1, n2) != (1, 1) or re.search(r"\b(iter|zip)\b", arm):
        raise AnchorLost("pattern_matches_value_with_semantics: the array arm is outside the transcription rules %r" % ((n1, n2),))
    return ("fn array_arm(%s: &PatternArray, detached_value: Value, env: &mut Environment, p: &Interpreter, semantics: PatternMatchSemantics) -> (res: Result<bool, MechError>)\n"
            "  requires %s.prefix@.len() + %s.suffix@.len() <= usize::MAX,\n"
            "  ensures (outcome(res), final(env).st@) == array_match(*%s, detached_value, semantics.id, old(env).st@),\n{\n  let ghost st0 = env.st@;\n" % (pa, pa, pa, pa) + arm + "\n}\n")


def arraypat_unit(text, features):
    return "use vstd::prelude::*;\nverus! {\n" + ARRAYPAT_MODEL + arraypat_fn(text, features) + vlib.verus_canary("canary_arraypat", "x: u64", []) + "\n} // verus!\nfn main() {}\n"


# ---- the tuple-struct arm (`:Name(p1, .., pn)`) of pattern_matches_value_with_semantics -------------------------------------------------------
TSPAT_MODEL = """
#[derive(Clone, Copy)]
pub struct Identifier { pub id: u64 }
pub uninterp spec fn ident_hash(i: Identifier) -> u64;
impl Identifier {
  #[verifier::external_body] pub fn hash(&self) -> (r: u64) ensures r == ident_hash(*self), { unimplemented!() }
  pub fn clone(&self) -> (r: Identifier) ensures r == *self, { *self }
}
pub struct Atom { pub name: Identifier }
pub struct PatternTupleStruct { pub name: Identifier, pub patterns: Vec<Pattern> }
pub enum Pattern { TupleStruct(PatternTupleStruct), Other(u64) }
pub struct MechTuple { pub elements: Vec<Value> }
pub struct MechEnum { pub variants: Vec<(u64, Option<Value>)> }
pub enum Value { Enum(MechEnum), Tuple(MechTuple), Other(u64) }
pub struct MechError { pub id: u64 }
pub struct Interpreter { pub id: u64 }
#[derive(Clone, Copy)]
pub struct PatternMatchSemantics { pub id: u64 }
pub struct Environment { pub st: Ghost<int> }
pub uninterp spec fn pm_res(pat: Pattern, v: Value, sem: u64, st: int) -> Option<bool>;
pub uninterp spec fn pm_env(pat: Pattern, v: Value, sem: u64, st: int) -> int;
pub uninterp spec fn atom_of(name: Identifier) -> Value;          // the value of the atom `:Name`
pub uninterp spec fn vmatch(a: Value, b: Value) -> bool;          // values_match
pub uninterp spec fn detach(v: Value) -> Value;                   // deep_detach_value
#[verifier::external_body]
pub fn pattern_matches_value_with_semantics_rec(pattern: &Pattern, value: &Value, env: &mut Environment, p: &Interpreter, semantics: PatternMatchSemantics) -> (r: Result<bool, MechError>)
  ensures (match r { Ok(b) => pm_res(*pattern, *value, semantics.id, old(env).st@) == Some(b), Err(_) => pm_res(*pattern, *value, semantics.id, old(env).st@) is None }),
    final(env).st@ == pm_env(*pattern, *value, semantics.id, old(env).st@),
{ unimplemented!() }
#[verifier::external_body]
pub fn atom(a: &Atom, p: &Interpreter) -> (r: Value) ensures r == atom_of(a.name), { unimplemented!() }
#[verifier::external_body]
pub fn values_match(a: &Value, b: &Value) -> (r: bool) ensures r == vmatch(*a, *b), { unimplemented!() }
#[verifier::external_body]
pub fn deep_detach_value(v: &Value) -> (r: Value) ensures r == detach(*v), { unimplemented!() }
pub open spec fn zip_len(a: int, b: int) -> int { if a <= b { a } else { b } }
#[verifier::external_body]
pub fn zip_count(a: usize, b: usize) -> (r: usize) ensures r == zip_len(a as int, b as int), { unimplemented!() }
pub open spec fn outcome(r: Result<bool, MechError>) -> Option<bool> { match r { Ok(b) => Some(b), Err(_) => None } }
pub open spec fn all_match_off(pats: Seq<Pattern>, vals: Seq<Value>, off: int, k: int, sem: u64, st: int) -> (Option<bool>, int)
  decreases pats.len() - k,
{
  if k < 0 || k >= pats.len() || off + k >= vals.len() { (Some(true), st) } else {
    let st1 = pm_env(pats[k], vals[off + k], sem, st);
    match pm_res(pats[k], vals[off + k], sem, st) {
      None => (None, st1),
      Some(b) => if b { all_match_off(pats, vals, off, k + 1, sem, st1) } else { (Some(false), st1) },
    }
  }
}
// ---- THE CONTRACT (C16 / C17: "an arm whose pattern matches"): `:Name(p1, .., pn)` matches (a) an enum value holding exactly the variant Name, whose payload (if any)
// matches the single element pattern (no payload: no element patterns); (b) a tuple whose first element is the atom :Name and whose remaining n elements match
// p1 .. pn left to right in one environment; nothing else
pub open spec fn tuple_struct_match(ps: PatternTupleStruct, v: Value, sem: u64, st: int) -> (Option<bool>, int) {
  match v {
    Value::Enum(e) => if e.variants@.len() != 1 { (Some(false), st) } else {
      let (vid, payload) = e.variants@[0];
      if vid != ident_hash(ps.name) { (Some(false), st) } else {
        match payload {
          Some(pv) => if ps.patterns@.len() != 1 { (Some(false), st) } else { (pm_res(ps.patterns@[0], pv, sem, st), pm_env(ps.patterns@[0], pv, sem, st)) },
          None => (Some(ps.patterns@.len() == 0), st),
        }
      }
    },
    Value::Tuple(t) => if t.elements@.len() != ps.patterns@.len() + 1 { (Some(false), st) }
                       else if !vmatch(atom_of(ps.name), detach(t.elements@[0])) { (Some(false), st) }
                       else { all_match_off(ps.patterns@, t.elements@, 1, 0, sem, st) },
    _ => (Some(false), st),
  }
}
"""


def tspat_fn(text, features):
    """the arm `Pattern::TupleStruct(pat_struct) => {..}` of `pattern_matches_value_with_semantics` as `fn tuple_struct_arm(pat_struct, detached_value, env, p, semantics)`:
    `X.borrow()` on the enum / tuple cell -> `&X`; `let (a, b) = &V[0];` -> two field bindings; `for (a, b) in PS.patterns.iter().zip(T.elements.iter().skip(1))` -> index loop
    over min(len) reading `T.elements[1 + k]`; the recursive call -> the stand-in `.._rec`; cfg attributes evaluated.  ASSUMED: patterns.len() + 1 does not overflow"""
    sig, body = extract_fn(text, "pattern_matches_value_with_semantics")
    b = apply_cfg(re.sub(r"//[^\n]*", "", body).replace("\r", ""), features)
    m = re.search(r"Pattern::TupleStruct\(\s*(\w+)\s*\)\s*=>\s*\{", b)
    if not m:
        raise AnchorLost("pattern_matches_value_with_semantics: the arm `Pattern::TupleStruct(..)` not found")
    ps = m.group(1)
    arm = b[m.end():match_brace(b, m.end() - 1) - 1]
    arm = re.sub(r"\s*\n\s*\.", ".", arm)
    arm = arm.replace("pattern_matches_value_with_semantics(", "pattern_matches_value_with_semantics_rec(")
    arm = re.sub(r"\b(\w+)\.borrow\(\)", r"&\1", arm)
    arm = re.sub(r"let\s+\(\s*(\w+)\s*,\s*(\w+)\s*\)\s*=\s*&([\w\.]+\[\d+\])\s*;", r"let \1 = &\3.0; let \2 = &\3.1;", arm)
    arm = re.sub(r"Atom\s*\{\s*name\s*:\s*([\w\.\(\)]+)\s*,\s*\}", r"Atom { name: \1 }", arm)
    def loop(mm):
        a_, b_, xs, ys, sk = mm.group(1), mm.group(2), mm.group(3), mm.group(4), mm.group(5) or "0"     # elements skipped: whatever the code says
        return ("let zn_ = zip_count(%s.len(), %s.len() - %s);\n          for z_ in 0..zn_\n"
                "            invariant zn_ == zip_len(%s@.len() as int, %s@.len() - %s), %s@.len() == %s@.len() + 1, st0 == old(env).st@,\n"
                "              tuple_struct_match(*%s, detached_value, semantics.id, st0) == all_match_off(%s@, %s@, %s, z_ as int, semantics.id, env.st@),\n"
                "          {\n            let %s = &%s[z_]; let %s = &%s[%s + z_];" % (xs, ys, sk, xs, ys, sk, ys, xs, ps, xs, ys, sk, a_, xs, b_, ys, sk))
    arm, n = re.subn(r"for\s+\(\s*(\w+)\s*,\s*(\w+)\s*\)\s+in\s+([\w\.]+)\.iter\(\)\.zip\(\s*([\w\.]+)\.iter\(\)(?:\.skip\((\d+)\))?\s*\)\s*\{", loop, arm)
    if n != 1 or re.search(r"\b(iter|zip|skip|borrow)\b", arm):
        raise AnchorLost("pattern_matches_value_with_semantics: the tuple-struct arm is outside the transcription rules")
    return ("fn tuple_struct_arm(%s: &PatternTupleStruct, detached_value: Value, env: &mut Environment, p: &Interpreter, semantics: PatternMatchSemantics) -> (res: Result<bool, MechError>)\n"
            "  requires %s.patterns@.len() < usize::MAX,\n"
            "  ensures (outcome(res), final(env).st@) == tuple_struct_match(*%s, detached_value, semantics.id, old(env).st@),\n{\n  let ghost st0 = env.st@;\n" % (ps, ps, ps) + arm + "\n}\n")


def tspat_unit(text, features):
    return "use vstd::prelude::*;\nverus! {\n" + TSPAT_MODEL + tspat_fn(text, features) + vlib.verus_canary("canary_tspat", "x: u64", []) + "\n} // verus!\nfn main() {}\n"


# ---- the dispatch of pattern_matches_value_with_semantics over the pattern kinds ------------------------------------------------------------------
DISPATCH_MODEL = """
pub struct PatternTuple { pub id: u64 }
pub struct PatternArray { pub id: u64 }
pub struct PatternTupleStruct { pub id: u64 }
pub struct Var { pub id: u64 }
pub enum Expression { Var(Var), Other(u64) }
pub enum Pattern { Wildcard, Tuple(PatternTuple), Array(PatternArray), Expression(Expression), TupleStruct(PatternTupleStruct), Other(u64) }
pub struct Value { pub id: u64 }
pub struct MechError { pub id: u64 }
pub struct Interpreter { pub id: u64 }
#[derive(Clone, Copy)]
pub struct PatternMatchSemantics { pub id: u64 }
pub struct Environment { pub st: Ghost<int> }
pub uninterp spec fn detach(v: Value) -> Value;                                                                   // deep_detach_value
// what each arm computes (its own contract: C16.verus.pattern_matches_value.*): result (None = error) and the environment it leaves
pub uninterp spec fn arm_tuple(t: PatternTuple, v: Value, sem: u64, st: int) -> (Option<bool>, int);
pub uninterp spec fn arm_array(a: PatternArray, v: Value, sem: u64, st: int) -> (Option<bool>, int);
pub uninterp spec fn arm_expr(e: Expression, v: Value, sem: u64, st: int) -> (Option<bool>, int);
pub uninterp spec fn arm_ts(t: PatternTupleStruct, v: Value, sem: u64, st: int) -> (Option<bool>, int);
pub open spec fn outcome(r: Result<bool, MechError>) -> Option<bool> { match r { Ok(b) => Some(b), Err(_) => None } }
#[verifier::external_body]
pub fn deep_detach_value(v: &Value) -> (r: Value) ensures r == detach(*v), { unimplemented!() }
#[verifier::external_body]
pub fn feature_error() -> (e: MechError) { unimplemented!() }
#[verifier::external_body]
pub fn tuple_arm(t: &PatternTuple, v: Value, env: &mut Environment, p: &Interpreter, semantics: PatternMatchSemantics) -> (r: Result<bool, MechError>)
  ensures (outcome(r), final(env).st@) == arm_tuple(*t, v, semantics.id, old(env).st@), { unimplemented!() }
#[verifier::external_body]
pub fn array_arm(a: &PatternArray, v: Value, env: &mut Environment, p: &Interpreter, semantics: PatternMatchSemantics) -> (r: Result<bool, MechError>)
  ensures (outcome(r), final(env).st@) == arm_array(*a, v, semantics.id, old(env).st@), { unimplemented!() }
// the arm for `Expression::Var(var)` is the variable case of the expression arm
#[verifier::external_body]
pub fn var_arm(var: &Var, v: Value, env: &mut Environment, p: &Interpreter, semantics: PatternMatchSemantics) -> (r: Result<bool, MechError>)
  ensures (outcome(r), final(env).st@) == arm_expr(Expression::Var(*var), v, semantics.id, old(env).st@), { unimplemented!() }
#[verifier::external_body]
pub fn expr_arm(e: &Expression, v: Value, env: &mut Environment, p: &Interpreter, semantics: PatternMatchSemantics) -> (r: Result<bool, MechError>)
  ensures (outcome(r), final(env).st@) == arm_expr(*e, v, semantics.id, old(env).st@), { unimplemented!() }
#[verifier::external_body]
pub fn tuple_struct_arm(t: &PatternTupleStruct, v: Value, env: &mut Environment, p: &Interpreter, semantics: PatternMatchSemantics) -> (r: Result<bool, MechError>)
  ensures (outcome(r), final(env).st@) == arm_ts(*t, v, semantics.id, old(env).st@), { unimplemented!() }
// ---- THE CONTRACT: the wildcard matches anything and binds nothing; every other pattern is matched, against the DETACHED value, by the arm of its kind; a pattern of
// a kind that is not enabled is an error
pub open spec fn matches(pattern: Pattern, value: Value, sem: u64, st: int) -> (Option<bool>, int) {
  let v = detach(value);
  match pattern {
    Pattern::Wildcard => (Some(true), st),
    Pattern::Tuple(t) => arm_tuple(t, v, sem, st),
    Pattern::Array(a) => arm_array(a, v, sem, st),
    Pattern::Expression(e) => arm_expr(e, v, sem, st),
    Pattern::TupleStruct(t) => arm_ts(t, v, sem, st),
    Pattern::Other(_) => (None, st),
  }
}
"""


def dispatch_fn(text, features):
    """`pattern_matches_value_with_semantics` with each arm's block replaced by a call of that arm's stand-in (`tuple_arm`, `array_arm`, `var_arm`, `expr_arm`,
    `tuple_struct_arm`: the arms are under contract on their own), the catch-all error arm's constructor -> `feature_error()`; cfg attributes evaluated"""
    sig, body = extract_fn(text, "pattern_matches_value_with_semantics")
    b = apply_cfg(re.sub(r"//[^\n]*", "", body).replace("\r", ""), features).strip()[1:-1]
    arms = [(r"Pattern::Tuple\(\s*(\w+)\s*\)", "tuple_arm"), (r"Pattern::Array\(\s*(\w+)\s*\)", "array_arm"),
            (r"Pattern::Expression\(\s*Expression::Var\(\s*(\w+)\s*\)\s*\)", "var_arm"), (r"Pattern::Expression\(\s*(\w+)\s*\)", "expr_arm"),
            (r"Pattern::TupleStruct\(\s*(\w+)\s*\)", "tuple_struct_arm")]
    seen = 0
    for rx, fn in arms:
        m = re.search(rx + r"\s*=>\s*\{", b)
        if not m:
            if fn == "var_arm":
                continue            # the general expression arm subsumes it
            raise AnchorLost("pattern_matches_value_with_semantics: no arm for " + rx)
        e = match_brace(b, m.end() - 1)
        b = b[:m.end()] + " return %s(%s, detached_value, env, p, semantics); }" % (fn, m.group(1)) + b[e:]
        seen += 1
    m = re.search(r"(\w+)\s*=>\s*Err\(\s*MechError::new\(\s*FeatureNotEnabledError", b)
    if not m:
        raise AnchorLost("pattern_matches_value_with_semantics: the catch-all error arm not found")
    mm = b.rindex("}")            # end of the match
    b = b[:m.start()] + "%s => Err(feature_error()),\n  " % m.group(1) + b[mm:]
    if re.search(r"\b(MechError::new|format!|borrow|iter)\b", b):
        raise AnchorLost("pattern_matches_value_with_semantics: statements outside the arms that the rules do not cover")
    return ("fn pattern_matches_value_with_semantics(pattern: &Pattern, value: &Value, env: &mut Environment, p: &Interpreter, semantics: PatternMatchSemantics) -> (res: Result<bool, MechError>)\n"
            "  ensures (outcome(res), final(env).st@) == matches(*pattern, *value, semantics.id, old(env).st@),\n{\n" + b + "\n}\n")


def dispatch_unit(text, features):
    return "use vstd::prelude::*;\nverus! {\n" + DISPATCH_MODEL + dispatch_fn(text, features) + vlib.verus_canary("canary_dispatch", "x: u64", []) + "\n} // verus!\nfn main() {}\n"


# ---- guard_expression_true (src/interpreter/src/expressions.rs, whole) ---------------------------------------------------------------------
GUARDTRUE_MODEL = """
#[derive(Clone, Copy, PartialEq, Eq, Structural)]
pub enum Value { Bool(bool), Empty, Other(u64) }
pub struct Expression { pub id: u64 }
pub struct Environment { pub id: u64 }
pub struct Interpreter { pub id: u64 }
pub struct MechError { pub id: u64 }
pub uninterp spec fn ev(e: Expression, env: Environment) -> Option<Value>;          // expression(e, Some(env), p); None = error
#[verifier::external_body]
pub fn expression(e: &Expression, env: Option<&Environment>, p: &Interpreter) -> (r: Result<Value, MechError>)
  requires env is Some,
  ensures (match r { Ok(v) => ev(*e, *env.unwrap()) == Some(v), Err(_) => ev(*e, *env.unwrap()) is None }),
{ unimplemented!() }
#[verifier::external_body]
pub fn invalid_guard_error() -> (e: MechError) { unimplemented!() }
// ---- THE CONTRACT (C16: "whose guard is true"): a guard holds iff it evaluates -- under the bindings of the arm's pattern -- to the boolean true; a guard that fails to
// evaluate, or evaluates to something that is not a boolean, is an error (never "true", never silently "false")
pub open spec fn guard_spec(g: Expression, env: Environment) -> Option<bool> {
  match ev(g, env) { Some(Value::Bool(b)) => Some(b), _ => None }
}
"""


def guard_true_fn(text, features):
    """`guard_expression_true` (whole body): the error constructor -> `invalid_guard_error()`, `*flag.borrow()` -> `flag`, `MResult` -> `Result<_, MechError>`; cfg evaluated"""
    sig, body = extract_fn(text, "guard_expression_true")
    b = apply_cfg(re.sub(r"//[^\n]*", "", body).replace("\r", ""), features).strip()[1:-1]
    while True:
        m = re.search(r"Err\(\s*MechError::new\(", b)
        if not m:
            break
        e = match_brace(b, m.start() + 3, "(", ")")
        b = b[:m.start()] + "Err(invalid_guard_error())" + b[e:]
    b = re.sub(r"\*(\w+)\.borrow\(\)", r"\1", b)
    if re.search(r"\b(MechError::new|borrow)\b", b):
        raise AnchorLost("guard_expression_true: the body is outside the transcription rules")
    return ("fn guard_expression_true(guard: &Expression, env: &Environment, p: &Interpreter) -> (res: Result<bool, MechError>)\n"
            "  ensures (match guard_spec(*guard, *env) { Some(b) => res == Ok::<bool, MechError>(b), None => res is Err }),\n{\n" + b + "\n}\n")


def guard_true_unit(text, features):
    return "use vstd::prelude::*;\nverus! {\n" + GUARDTRUE_MODEL + guard_true_fn(text, features) + vlib.verus_canary("canary_guard_true", "x: u64", []) + "\n} // verus!\nfn main() {}\n"
