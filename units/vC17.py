"""(F) Verus contract on `execute_fsm_pipe_impl` (src/interpreter/src/state_machines.rs), the whole body, extracted on every run,
onto contracts/C17/fsmmodel.rs.  Mechanical rewrites (anything else is a lost anchor):
  S1  every `trace_println!( .. );` statement is removed (tracing only)
  S2  `for (i, x) in xs.iter().enumerate() {` -> `for i in 0..xs.len() { let x = &xs[i];`   (xs = fsm.arms, guards; with `.rev()`:
      the same loop over descending positions)
  S3  `continue` (Verus for-loops have none): a match arm `=> continue,` -> `=> {},` and `if c { continue; } rest` ->
      `if !(c) { rest }`, each only after checking that nothing but closing braces follows up to the end of the loop body
  S4  `return Ok(e)` -> `return Some(e)`; `return Err(..)` and the final `Err(..)` -> `None`
The contract: the result equals `run(arms, max_steps, state, env)` of the model, the semantics written from the property."""
import re
import vlib
from vlib import AnchorLost, find_code, match_brace, extract_fn
from units import vmat
from units.vC16 import strip_macro_stmts, err_to_none

PATH = "src/interpreter/src/state_machines.rs"
FSM_LOCALS = ['step', 'transitioned', 'arm_idx', 'arm', 'pattern', 'transitions', 'arm_env', 'matched', 'previous_state', 'out', 'value', 'guards', 'pattern_matched', 'guard_idx', 'guard', 'guard_passes', 'cond', 'x']
APPLY_LOCALS = ['transition', 'next_pattern', 'output_pattern', 'stmt', 'code', 'line']
TARGET_LOCALS = ['target', 'pattern', 'state_name']
COV_LOCALS = ['arm', 'transitions', 'guards', 'guard', 'transition']


def _model():
    import os
    return open(os.path.join(os.path.dirname(os.path.dirname(os.path.abspath(__file__))), "contracts", "C17", "fsmmodel.rs")).read()


def enclosing_blocks(b, pos):
    """[(open, close)] of the brace blocks containing pos, outermost first (close = index of the `}`)"""
    stack, res = [], None
    for i, c in enumerate(b):
        if i == pos:
            res = list(stack)
        if c == "{":
            stack.append(i)
        elif c == "}":
            o = stack.pop()
            if res is not None and o in res:
                res[res.index(o)] = (o, i)
    return [x for x in (res or []) if isinstance(x, tuple)]


def _is_loop_body(b, open_idx):
    return re.search(r"\bfor\s+[^{};]*$", b[:open_idx]) is not None


def _nothing_follows(b, blk, blocks):
    """after block `blk` only closing braces / commas follow up to the end of the innermost enclosing loop body"""
    k = blocks.index(blk)
    end = blk[1]
    for outer in reversed(blocks[:k]):
        # the other arms of a `match` are alternatives, not statements that follow
        is_match_body = re.search(r"\bmatch\s+[^{};]*$", b[:outer[0]]) is not None
        if not is_match_body and re.search(r"[^\s},]", b[end + 1:outer[1]]):
            return False
        end = outer[1]
        if _is_loop_body(b, outer[0]):
            return True
    return False


def continue_to_guard(b):
    # S3a: `=> continue,` in a match
    while True:
        m = re.search(r"=>\s*continue\s*,", b)
        if not m:
            break
        blocks = enclosing_blocks(b, m.start())
        mb = blocks[-1]                  # the match body
        if not _nothing_follows(b, mb, blocks):
            raise AnchorLost("`=> continue` in a match that is not the last statement of its loop body")
        b = b[:m.start()] + "=> {}," + b[m.end():]
    # S3b: `if c { continue; } rest`
    while True:
        m = re.search(r"\bif\s+([^{};]*?)\s*\{\s*continue\s*;\s*\}", b)
        if not m:
            break
        blocks = enclosing_blocks(b, m.start())
        eb = blocks[-1]
        if not (_is_loop_body(b, eb[0]) or _nothing_follows(b, eb, blocks)):
            raise AnchorLost("`if c { continue; }` followed by statements outside its block in the loop body")
        b = b[:m.start()] + "if !(" + m.group(1) + ") {" + b[m.end():eb[1]] + "}\n" + b[eb[1]:]
    if re.search(r"\bcontinue\b", b):
        raise AnchorLost("a `continue` outside the two shapes the rewrite handles")
    return b


def fsm_body(text):
    sig, body = extract_fn(text, "execute_fsm_pipe_impl")
    b = re.sub(r"//[^\n]*", "", body).replace("\r", "").strip()[1:-1]
    b = strip_macro_stmts(b, "trace_println")
    b = vlib.canon_bindings(sig, b, ["fsm", "state", "call_env", "p"], FSM_LOCALS)
    rev = {}

    def hdr(m):
        i, x, xs = m.group(1), m.group(2), m.group(3)
        if m.group(4):          # `.rev()`: the same loop over descending positions (the contract stays that of the forward loop)
            rev[i] = "(%s.len() - 1 - r_%s)" % (xs, i)
            return "for r_%s in 0..%s.len() { let %s = %s.len() - 1 - r_%s; let %s = &%s[%s];" % (i, xs, i, xs, i, x, xs, i)
        return "for %s in 0..%s.len() { let %s = &%s[%s];" % (i, xs, x, xs, i)
    b, n1 = re.subn(r"for\s+\((\w+),\s*(\w+)\)\s+in\s+(fsm\.arms|guards)\.iter\(\)\.enumerate\(\)(\.rev\(\))?\s*\{", hdr, b)
    if n1 != 2:
        raise AnchorLost("execute_fsm_pipe_impl: expected the loops over fsm.arms and over guards")
    fsm_body.rev = rev
    b = continue_to_guard(b)
    b = re.sub(r"\breturn\s+Ok\s*\(", "return Some(", b)
    b = err_to_none(b)
    if re.search(r"\b(Ok|Err|MechError|trace_println|format)\b", b):
        raise AnchorLost("execute_fsm_pipe_impl: statements outside the transcription rules")
    return b


A = "fsm.arms@"
R0 = "run(%s, p.max_steps as int, *old(state), *old(call_env))" % A
CTX = "step < p.max_steps, run(%s, p.max_steps - step, s_in, e_in) == %s" % (A, R0)
LOOPS = [
    ("    invariant run(%s, p.max_steps - step, *state, *call_env) == %s," % (A, R0),
     "let ghost s_in = *state; let ghost e_in = *call_env;"),
    ("    invariant_except_break !transitioned, *state == s_in, *call_env == e_in, step_from(%s, 0, s_in, e_in) == step_from(%s, arm_idx as int, s_in, e_in),\n"
     "    invariant " % (A, A) + CTX + ",\n"
     "    ensures transitioned ==> step_from(%s, 0, s_in, e_in) == Step::Next(*state, *call_env),\n"
     "      !transitioned ==> *state == s_in && *call_env == e_in && step_from(%s, 0, s_in, e_in) == Step::Halt," % (A, A), ""),
    ("    invariant_except_break !transitioned, *state == s_in, *call_env == e_in, arm_env == bindv(*pattern, s_in, cl(*pattern, e_in)),\n"
     "      gstep(guards@, 0, s_in, arm_env) == gstep(guards@, guard_idx as int, s_in, arm_env),\n"
     "    invariant " + CTX + ", arm_idx < %s.len(), *arm == %s[arm_idx as int], *arm == FsmArm::Guard(*pattern, *guards),\n"
     "      step_from(%s, 0, s_in, e_in) == step_from(%s, arm_idx as int, s_in, e_in), pmv(*pattern, s_in, cl(*pattern, e_in)) == Some(true),\n"
     "    ensures transitioned ==> step_from(%s, 0, s_in, e_in) == Step::Next(*state, *call_env),\n"
     "      !transitioned ==> *state == s_in && *call_env == e_in && gstep(guards@, 0, s_in, bindv(*pattern, s_in, cl(*pattern, e_in))) is None," % (A, A, A, A, A), ""),
]


def fsm_fn(text):
    b = fsm_body(text)
    n = len(vlib.find_all_code(b, r"\bfor\b"))
    if n != len(LOOPS):
        raise AnchorLost("execute_fsm_pipe_impl: %d loops, the contract was written for %d" % (n, len(LOOPS)))
    loops = list(LOOPS)
    for k, var in ((1, "arm_idx"), (2, "guard_idx")):
        if var in fsm_body.rev:      # head-of-loop clauses cannot name the position variable of a reversed loop
            loops[k] = (re.sub(r"\b%s\b" % var, fsm_body.rev[var], loops[k][0]),) + tuple(loops[k][1:])
    b = vmat.inject(b, loops)
    return ("fn execute_fsm_pipe_impl(fsm: &FsmImplementation, state: &mut Value, call_env: &mut Environment, p: &Interpreter) -> (res: Option<Value>)\n"
            "  ensures res == %s,\n{\n" % R0 + b + "\n}\n")


def unit_text():
    text = vlib.read_repo(PATH)
    return vlib.verus_file([_model(), fsm_fn(text), vlib.verus_canary("canary_fsm", "x: u64", [])])


# ---------------------------------------------------------------------------------------------------------------------
def _apply_model():
    import os
    return open(os.path.join(os.path.dirname(os.path.dirname(os.path.abspath(__file__))), "contracts", "C17", "applymodel.rs")).read()


T = "transitions@"
AP0 = "at_spec(%s, 0, *old(state), *old(env), old(p).log@)" % T
AP_LOOPS = [
    ("    invariant *env == *old(env), at_spec(%s, t_ as int, *state, *env, p.log@) == %s," % (T, AP0), ""),
    ("    invariant *env == *old(env), t_ < %s.len(), *transition == %s[t_ as int], *transition == Transition::CodeBlock(*code), *state == s_in,\n"
     "      at_spec(%s, t_ as int, s_in, *env, w_in) == %s, code_spec(code@, c_ as int, p.log@) == code_spec(code@, 0, w_in)," % (T, T, T, AP0),
     "", "let ghost w_in = p.log@; let ghost s_in = *state;"),
]


def apply_fn(text):
    """`apply_transitions`, whole body: `for transition in transitions {` -> `for t_ in 0..transitions.len() { let transition = &transitions[t_];`,
    `for (line, _) in code {` -> `for c_ in 0..code.len() { let line = &code[c_].0;`, `Ok(e)` -> `Some(e)`; the slice parameter is a `&Vec`;
    `p: &Interpreter` is `&mut Interpreter` carrying the ghost log of evaluator calls."""
    sig, body = extract_fn(text, "apply_transitions")
    b = re.sub(r"//[^\n]*", "", body).replace("\r", "").strip()[1:-1]
    b = strip_macro_stmts(b, "trace_println")
    b = vlib.canon_bindings(sig, b, ["transitions", "state", "env", "p"], APPLY_LOCALS)
    b, n1 = re.subn(r"for\s+(\w+)\s+in\s+transitions\s*\{", r"for t_ in 0..transitions.len() { let \1 = &transitions[t_];", b)
    b, n2 = re.subn(r"for\s+\((\w+),\s*_\)\s+in\s+code\s*\{", r"for c_ in 0..code.len() { let \1 = &code[c_].0;", b)
    if (n1, n2) != (1, 1):
        raise AnchorLost("apply_transitions: expected one loop over the transitions and one over the lines of a code block")
    b = re.sub(r"\bOk\s*\(", "Some(", b)
    b = err_to_none(b)
    if re.search(r"\b(Ok|Err|MechError)\b", b):
        raise AnchorLost("apply_transitions: statements outside the transcription rules")
    b = vmat.inject(b, AP_LOOPS)
    return ("fn apply_transitions(transitions: &Vec<Transition>, state: &mut Value, env: &mut Environment, p: &mut Interpreter) -> (res: Option<Option<Value>>)\n"
            "  ensures res == %s.res, *final(state) == %s.state, final(p).log@ == %s.log, *final(env) == *old(env),\n{\n" % (AP0, AP0, AP0) + b + "\n}\n")


VT_MODEL = """
pub struct Pattern { pub id: u64 }
pub struct Name { pub id: u64 }
pub enum Transition { Async(Pattern), CodeBlock(u64), Next(Pattern), Output(Pattern), Statement(u64) }
pub struct FsmImplementation { pub id: u64 }
pub struct FsmPipe { pub id: u64 }
pub struct NameSet { pub id: u64 }
pub uninterp spec fn snp(pattern: Pattern) -> Option<Name>;          // state_name_from_pattern
pub uninterp spec fn has(names: NameSet, n: Name) -> bool;           // HashSet<String>::contains
#[verifier::external_body]
pub fn state_name_from_pattern(pattern: &Pattern) -> (o: Option<Name>) ensures o == snp(*pattern), { unimplemented!() }
impl NameSet {
  #[verifier::external_body]
  pub fn contains(&self, n: &Name) -> (b: bool) ensures b == has(*self, *n), { unimplemented!() }
}
// the state a transition moves to, if it names one
pub open spec fn target_of(t: Transition) -> Option<Name> {
  match t { Transition::Next(p) => snp(p), Transition::Async(p) => snp(p), _ => None }
}
"""


def target_fn(text):
    """`validate_transition_target_state`, whole body: `return Err(..)` -> `return None`, `Ok(())` -> `Some(())`; `HashSet<String>` is an opaque set."""
    sig, body = extract_fn(text, "validate_transition_target_state")
    b = re.sub(r"//[^\n]*", "", body).replace("\r", "").strip()[1:-1]
    b = vlib.canon_bindings(sig, b, ["transition", "fsm", "state_names", "fsm_pipe"], TARGET_LOCALS)
    b = re.sub(r"\bOk\s*\(", "Some(", b)
    b = err_to_none(b)
    if re.search(r"\b(Ok|Err|MechError)\b", b):
        raise AnchorLost("validate_transition_target_state: statements outside the transcription rules")
    return ("fn validate_transition_target_state(transition: &Transition, fsm: &FsmImplementation, state_names: &NameSet, fsm_pipe: &FsmPipe) -> (res: Option<()>)\n"
            "  ensures res.is_some() <==> (target_of(*transition) is None || has(*state_names, target_of(*transition).unwrap())),\n{\n" + b + "\n}\n")


COV_MODEL = """
pub enum Pattern { Wildcard, Other(u64) }
pub struct Transition { pub id: u64 }
pub struct Guard { pub condition: Pattern, pub transitions: Vec<Transition> }
pub struct Comment { pub id: u64 }
pub enum FsmArm { Guard(Pattern, Vec<Guard>), Transition(Pattern, Vec<Transition>), Comment(Comment) }
pub struct FsmImplementation { pub arms: Vec<FsmArm> }
pub struct FsmPipe { pub id: u64 }
pub struct NameSet { pub id: u64 }
pub uninterp spec fn target_ok(t: Transition, names: NameSet) -> bool;     // validate_transition_target_state accepts t
#[verifier::external_body]
pub fn validate_transition_target_state(transition: &Transition, fsm: &FsmImplementation, state_names: &NameSet, fsm_pipe: &FsmPipe) -> (o: Option<()>)
  ensures o.is_some() <==> target_ok(*transition, *state_names),
{ unimplemented!() }
// `&[]`
#[verifier::external_body]
pub fn empty_slice<'a>() -> (r: &'a [Transition]) ensures r@.len() == 0, { &[] }
pub open spec fn all_ok(ts: Seq<Transition>, n: int, names: NameSet) -> bool { forall|j: int| 0 <= j < n ==> target_ok(#[trigger] ts[j], names) }
pub open spec fn guards_ok(gs: Seq<Guard>, n: int, names: NameSet) -> bool { forall|g: int| 0 <= g < n ==> all_ok((#[trigger] gs[g]).transitions@, gs[g].transitions@.len() as int, names) }
// every transition of the arm -- of a plain arm, or of EVERY guard of a guarded arm -- has an acceptable target
pub open spec fn arm_ok(arm: FsmArm, names: NameSet) -> bool {
  match arm {
    FsmArm::Comment(_) => true,
    FsmArm::Transition(_, ts) => all_ok(ts@, ts@.len() as int, names),
    FsmArm::Guard(_, gs) => guards_ok(gs@, gs@.len() as int, names),
  }
}
pub open spec fn arms_ok(arms: Seq<FsmArm>, n: int, names: NameSet) -> bool { forall|i: int| 0 <= i < n ==> arm_ok(#[trigger] arms[i], names) }
"""


def coverage_fn(text):
    """`validate_fsm_state_coverage` from `for arm in &fsm.arms {` to the end (DROPPED: the collection of the declared state names and
    the start-state check above it): `for x in &xs` / `for x in xs` -> index loops, `&[]` -> `empty_slice()`, and the match arm
    `FsmArm::Comment(_) => continue,` of `let transitions = match arm {..}` -> `=> empty_slice(),` (checked: only the loop over
    `transitions` follows the `let`), `Ok(())` -> `Some(())`."""
    sig, body = extract_fn(text, "validate_fsm_state_coverage")
    a = find_code(body, r"for\s+arm\s+in\s+&fsm\.arms\s*\{")
    if not a:
        raise AnchorLost("validate_fsm_state_coverage: the loop over fsm.arms not found")
    b = re.sub(r"//[^\n]*", "", body[a.start():body.rindex("}")]).replace("\r", "")
    b = vlib.canon_bindings(sig, b, ["fsm", "fsm_pipe"], COV_LOCALS)
    ml = re.search(r"let\s+transitions\s*=\s*match\s+arm\s*\{", b)
    if not ml:
        raise AnchorLost("validate_fsm_state_coverage: `let transitions = match arm {` not found")
    e = match_brace(b, ml.end() - 1)
    after = b[e:].lstrip()
    if not after.startswith(";"):
        raise AnchorLost("validate_fsm_state_coverage: unexpected text after the match")
    rest = after[1:].strip()
    mf = re.match(r"for\s+(\w+)\s+in\s+transitions\s*\{", rest)
    if not mf or re.sub(r"[\s}]", "", rest[match_brace(rest, mf.end() - 1):]) not in ("Ok(())", "Some(())"):
        raise AnchorLost("validate_fsm_state_coverage: statements other than the loop over `transitions` follow the `let`")
    head = b[:e]
    head, nc = re.subn(r"FsmArm::Comment\(_\)\s*=>\s*continue\s*,", "FsmArm::Comment(_) => empty_slice(),", head)
    b = head + b[e:]
    b = re.sub(r"&\[\]", "empty_slice()", b)
    b = re.sub(r"for\s+arm\s+in\s+&fsm\.arms\s*\{", "for a_ in 0..fsm.arms.len() { let arm = &fsm.arms[a_];", b)
    b = re.sub(r"for\s+guard\s+in\s+guards\s*\{", "for g_ in 0..guards.len() { let guard = &guards[g_];", b)
    b = re.sub(r"for\s+transition\s+in\s+&guard\.transitions\s*\{", "for j_ in 0..guard.transitions.len() { let transition = &guard.transitions[j_];", b)
    b = re.sub(r"for\s+transition\s+in\s+transitions\s*\{", "for t_ in 0..transitions.len() { let transition = &transitions[t_];", b)
    b = re.sub(r"\bOk\s*\(", "Some(", b)
    b = err_to_none(b)
    if re.search(r"\b(Ok|Err|continue)\b", b):
        raise AnchorLost("validate_fsm_state_coverage: the traversal is outside the transcription rules")
    N = "*state_names"
    # invariants are attached by loop variable (a_ arms, g_ guards, j_ a guard's transitions, t_ the arm's own transitions)
    by_var = [
        ("    invariant arms_ok(fsm.arms@, a_ as int, %s)," % N, ""),
        ("    invariant a_ < fsm.arms@.len(), *arm == fsm.arms@[a_ as int], *arm is Guard, arm->Guard_1 == *guards, arms_ok(fsm.arms@, a_ as int, %s), guards_ok(guards@, g_ as int, %s)," % (N, N), ""),
        ("    invariant g_ < guards@.len(), *guard == guards@[g_ as int], a_ < fsm.arms@.len(), *arm == fsm.arms@[a_ as int], *arm is Guard, arm->Guard_1 == *guards,\n"
         "      arms_ok(fsm.arms@, a_ as int, %s), guards_ok(guards@, g_ as int, %s), all_ok(guard.transitions@, j_ as int, %s)," % (N, N, N), ""),
        ("    invariant a_ < fsm.arms@.len(), *arm == fsm.arms@[a_ as int], arms_ok(fsm.arms@, a_ as int, %s), all_ok(transitions@, t_ as int, %s),\n"
         "      all_ok(transitions@, transitions@.len() as int, %s) <==> arm_ok(*arm, %s)," % (N, N, N, N), ""),
    ]
    keyed = dict(zip(("a_", "g_", "j_", "t_"), by_var))
    loops = []
    for m in vlib.find_all_code(b, r"\bfor\b"):
        mv = re.match(r"for\s+(\w+)\s+in\s+0\.\.", b[m.start():])
        if not mv or mv.group(1) not in keyed:
            raise AnchorLost("validate_fsm_state_coverage: a loop the contract has no invariant for")
        loops.append(keyed[mv.group(1)])
    if not any(l is keyed["a_"] for l in loops) or not any(l is keyed["t_"] for l in loops):
        raise AnchorLost("validate_fsm_state_coverage: the loops over the arms and over an arm's transitions not found")
    b = vmat.inject(b, loops)
    return ("fn validate_fsm_state_coverage_traversal(fsm: &FsmImplementation, state_names: &NameSet, fsm_pipe: &FsmPipe) -> (res: Option<()>)\n"
            "  ensures res.is_some() <==> arms_ok(fsm.arms@, fsm.arms@.len() as int, %s),\n{\n" % N + b + "\n}\n")


# ---------------------------------------------------------------------------------------------------------------------
# execute_fsm_pipe: argument count / kind check, binding of the inputs, start state
ARG_LOCALS = ['fsm_id', 'fsm', 'fsms', 'call_env', 'args', 'start_args', 'arg_expr', 'input_decls', 'specs', 'spec', 'arg_decl', 'arg_value', 'detached_arg',
              'kind_annotation_node', 'expected_kind', 'actual_kind', 'state']


def _arg_model():
    import os
    return open(os.path.join(os.path.dirname(os.path.dirname(os.path.abspath(__file__))), "contracts", "C17", "argmodel.rs")).read()


ARG_ENS = """  ensures
    // a wrong number of arguments, an argument of the wrong kind (or a kind annotation that cannot be resolved) is rejected
    !args_ok(input_decls@, args@) ==> res is None,
    // otherwise the machine runs from its declared start state, evaluated with exactly the given arguments bound to the declared input names
    args_ok(input_decls@, args@) ==> res == (match ptv(fsm.start, bound(input_decls@, args@, args@.len() as int)) {
        None => None,
        Some(s0) => if cov(fsm, *fsm_pipe) { run_impl(fsm, s0, bound(input_decls@, args@, args@.len() as int)) } else { None },
      }),
"""
ARG_INV = """    invariant input_decls@.len() == args@.len(), zi_ <= args@.len(),
      call_env.map@ == bound(input_decls@, args@, zi_ as int),
      forall|i: int| 0 <= i < zi_ ==> arg_ok(#[trigger] input_decls@[i], args@[i]),
    decreases args@.len() - zi_,
"""


def arg_fn(text, features):
    """(F) `execute_fsm_pipe` (src/interpreter/src/state_machines.rs) from the statement after `let input_decls = { .. };` (i.e. the argument-count test) to the end, onto
    contracts/C17/argmodel.rs; `fsm`, `input_decls`, `args` (computed above) are parameters, `let mut call_env = Environment::new();` (above; checked) is kept.
      P1  `for (arg_decl, arg_value) in input_decls.iter().zip(args.iter()) {` -> `let mut zi_ = 0; while zi_ < input_decls.len() && zi_ < args.len() { let arg_decl = &input_decls[zi_]; let arg_value = &args[zi_]; zi_ += 1;`
      P2  `#[cfg(..)]` evaluated (default features); `kind_annotation(&X.kind, p)?.to_value_kind(..)?` -> `expected_kind_of(&X.kind, p)?`
      P3  `return Err(..)` -> `return None`; the final call keeps its text (`execute_fsm_pipe_impl(&fsm, &mut state, &mut call_env, p)`)"""
    from units import vC16
    sig, body = extract_fn(text, "execute_fsm_pipe")
    b0 = re.sub(r"//[^\n]*", "", body[body.index("{") + 1:body.rindex("}")]).replace("\r", "")
    b0 = vlib.canon_bindings(sig, b0, ["fsm_pipe", "env", "p"], ARG_LOCALS)
    if not find_code(b0, r"let\s+mut\s+call_env\s*=\s*Environment::new\(\)\s*;"):
        raise AnchorLost("execute_fsm_pipe: `let mut call_env = Environment::new();` not found")
    # anchored on the statement that computes `input_decls` (which every version keeps), not on the guard itself: a deleted guard must fail, not vanish
    m = find_code(b0, r"let\s+input_decls\s*=\s*\{")
    if not m:
        raise AnchorLost("execute_fsm_pipe: `let input_decls = { .. };` not found")
    e0 = match_brace(b0, m.end() - 1)
    if not re.match(r"\s*;", b0[e0:]):
        raise AnchorLost("execute_fsm_pipe: `let input_decls = { .. };` has an unexpected shape")
    b = b0[b0.index(";", e0) + 1:]
    b = vC16.apply_cfg(b, features)
    b = vC16.err_to_none(b)
    b, n = re.subn(r"for\s+\(\s*arg_decl\s*,\s*arg_value\s*\)\s+in\s+input_decls\.iter\(\)\.zip\(\s*args\.iter\(\)\s*\)\s*\{",
                   "let mut zi_: usize = 0;\n  while zi_ < input_decls.len() && zi_ < args.len()\n" + ARG_INV + "  {\n    let arg_decl = &input_decls[zi_]; let arg_value = &args[zi_]; zi_ += 1;\n    proof { reveal_with_fuel(bound, 2); }", b)
    if n != 1:
        raise AnchorLost("execute_fsm_pipe: the loop over input_decls.iter().zip(args.iter()) not found")
    b, n = re.subn(r"kind_annotation\(\s*&(\w+)\.kind\s*,\s*p\s*\)\s*\?\s*\.to_value_kind\((?:[^()]|\([^()]*\))*\)\s*\?", r"expected_kind_of(&\1.kind, p)?", b)
    if re.search(r"\b(Err|Ok|MechError|kind_annotation\(|to_value_kind|cfg)\b", b):
        raise AnchorLost("execute_fsm_pipe: the argument binding is outside the transcription rules")
    return ("fn bind_arguments_and_run(fsm: FsmImplementation, fsm_pipe: &FsmPipe, input_decls: &Vec<ArgDecl>, args: &Vec<Value>, p: &Interpreter) -> (res: Option<Value>)\n"
            + ARG_ENS + "{\n  let mut call_env = Environment::new();\n" + b + "\n}\n")


# ---------------------------------------------------------------------------------------------------------------------
# validate_fsm_state_coverage: the start state must be a state that has an arm
START_MODEL = """
#[derive(Clone, Copy, PartialEq, Eq, Structural)]
pub struct Name { pub id: u64 }
pub struct Pattern { pub id: u64 }
pub struct FsmImplementation { pub start: Pattern, pub id: u64 }
pub struct FsmPipe { pub id: u64 }
pub struct NameSet { pub names: Ghost<Set<Name>> }
pub uninterp spec fn name_of(pt: Pattern) -> Option<Name>;      // state_name_from_pattern
impl NameSet {
  #[verifier::external_body]
  pub fn is_empty(&self) -> (b: bool) ensures b == (self.names@ == Set::<Name>::empty()), { unimplemented!() }
  #[verifier::external_body]
  pub fn contains(&self, n: &Name) -> (b: bool) ensures b == self.names@.contains(*n), { unimplemented!() }
}
#[verifier::external_body]
pub fn state_name_from_pattern(pt: &Pattern) -> (r: Option<Name>) ensures r == name_of(*pt), { unimplemented!() }
"""


def start_state_fn(text):
    """(F) `validate_fsm_state_coverage` from `if state_names.is_empty()` to (not including) the loop over the arms: `X.ok_or_else(|| ..)?` -> `X?`, `return Err(..)` -> `return None`,
    `return Ok(())` -> `return Some(true)` (accepted without further checks); the fragment ends with `Some(false)` (go on to the transition targets); `state_names` (collected above) is a parameter"""
    sig, body = extract_fn(text, "validate_fsm_state_coverage")
    b0 = re.sub(r"//[^\n]*", "", body).replace("\r", "")
    a = find_code(b0, r"if\s+state_names\.is_empty\(\)\s*\{")
    z = find_code(b0, r"for\s+arm\s+in\s+&fsm\.arms\s*\{")
    if not a or not z or z.start() < a.start():
        raise AnchorLost("validate_fsm_state_coverage: the start-state check not found")
    b = b0[a.start():z.start()]
    while True:
        m = re.search(r"\s*\.ok_or_else\(", b)
        if not m:
            break
        e = match_brace(b, m.end() - 1, "(", ")")
        b = b[:m.start()] + b[e:]
    b = re.sub(r"return\s+Ok\(\(\)\)\s*;", "return Some(true);", b)
    b = err_to_none(b)
    if re.search(r"\b(Ok|Err|MechError|ok_or_else)\b", b):
        raise AnchorLost("validate_fsm_state_coverage: the start-state check is outside the transcription rules")
    return ("fn start_state_check(fsm: &FsmImplementation, state_names: &NameSet, fsm_pipe: &FsmPipe) -> (res: Option<bool>)\n"
            "  // a machine none of whose arms names a state is accepted as it is; otherwise the declared start state must be a named state that has an arm\n"
            "  ensures state_names.names@ == Set::<Name>::empty() ==> res == Some(true),\n"
            "    state_names.names@ != Set::<Name>::empty() ==> (res.is_some() <==> (name_of(fsm.start) matches Some(n) && state_names.names@.contains(n))) && res != Some(true),\n{\n"
            + b + "\n  Some(false)\n}\n")


# ---- fsm_argument_kind_matches (whole body) ------------------------------------------------------------------------------------
KIND_MODEL = """
// a kind is a tree: references wrap a kind, a matrix kind has an element kind and a (possibly empty = unspecified) list of dimensions,
// every other kind is an opaque identity
pub enum ValueKind { Reference(Box<ValueKind>), Matrix(Box<ValueKind>, Vec<usize>), Other(u64) }
#[verifier::external_body]
pub fn kind_eq(a: &ValueKind, b: &ValueKind) -> (r: bool) ensures r == (*a == *b), { unimplemented!() }   // derived PartialEq: structural equality
// std's `a.iter().product::<usize>() == b.iter().product::<usize>()` over two dimension lists (NOT what the code uses; named so that such a rewrite is judged, not lost)
pub uninterp spec fn prod(s: Seq<usize>) -> int;
#[verifier::external_body]
pub fn prod_eq(a: &Vec<usize>, b: &Vec<usize>) -> (r: bool) ensures r == (prod(a@) == prod(b@)), { unimplemented!() }
pub open spec fn strip(k: ValueKind) -> ValueKind decreases k {
  match k { ValueKind::Reference(inner) => strip(*inner), _ => k }
}
// THE CONTRACT (from the property, C17: "arguments of the wrong kind are rejected"): an argument fits its declared kind iff, references
// aside, the two kinds are EQUAL -- except that a matrix kind declared without dimensions fits a matrix of any shape with the same element kind
pub open spec fn kind_fits(expected: ValueKind, actual: ValueKind) -> bool {
  let e = strip(expected); let a = strip(actual);
  match (e, a) {
    (ValueKind::Matrix(ee, ed), ValueKind::Matrix(ae, _ad)) => if ed@.len() == 0 { *ee == *ae } else { e == a },
    _ => e == a,
  }
}
"""


def kind_fn(text):
    """`fsm_argument_kind_matches` (whole body): the nested helper `strip_references` is lifted to a top-level function (Verus has no nested
    items) and given the contract `r == strip(kind)`; `X == Y` on kinds -> `kind_eq(X, Y)` (derived PartialEq, assumed structural);
    `b.as_ref()` on a `Box` -> `&**b`"""
    sig, body = extract_fn(text, "fsm_argument_kind_matches")
    b = re.sub(r"//[^\n]*", "", body[body.index("{") + 1:body.rindex("}")]).replace("\r", "")
    m = re.search(r"\bfn\s+strip_references\b", b)
    if not m:
        raise AnchorLost("fsm_argument_kind_matches: nested helper strip_references not found")
    hb = match_brace(b, b.index("{", m.end()))
    helper = b[b.index("{", m.end()):hb]
    b = b[:m.start()] + b[hb:]
    def fix(s):
        s = re.sub(r"\b(\w+)\.as_ref\(\)", r"(&**\1)", s)
        s = re.sub(r"(\(&\*\*\w+\)|\b\w+\b)\s*==\s*(\(&\*\*\w+\)|\b\w+\b)", r"kind_eq(\1, \2)", s)
        return s
    b = re.sub(r"\b(\w+)\.iter\(\)\.product::<usize>\(\)\s*==\s*(\w+)\.iter\(\)\.product::<usize>\(\)", r"prod_eq(\1, \2)", b)
    helper, b = fix(helper), fix(b)
    if re.search(r"\bfn\b|\bas_ref\b|==(?!\s*\d)", b) or "==" in helper:
        raise AnchorLost("fsm_argument_kind_matches: statements outside the transcription rules")
    return ("fn strip_references<'a>(kind: &'a ValueKind) -> (r: &'a ValueKind)\n  ensures *r == strip(*kind),\n  decreases *kind,\n" + helper + "\n"
            "fn fsm_argument_kind_matches(expected: &ValueKind, actual: &ValueKind) -> (r: bool)\n  ensures r == kind_fits(*expected, *actual),\n{\n" + b + "\n}\n")


# ---- pattern_to_value (src/interpreter/src/patterns.rs): the value a `->` pattern denotes = the next state -----------------------------------------
PPATH = "src/interpreter/src/patterns.rs"
PTV_MODEL = """
#[derive(Clone, Copy)]
pub struct Identifier { pub id: u64 }
impl Identifier { pub fn clone(&self) -> (r: Identifier) ensures r == *self, { *self } }
pub struct Atom { pub name: Identifier }
pub struct PatternTuple(pub Vec<Pattern>);
pub struct PatternTupleStruct { pub name: Identifier, pub patterns: Vec<Pattern> }
pub enum Pattern { Tuple(PatternTuple), TupleStruct(PatternTupleStruct), Other(u64) }
pub struct MechTuple { pub elements: Vec<Value> }
impl MechTuple { #[verifier::external_body] pub fn from_vec(v: Vec<Value>) -> (r: MechTuple) ensures r.elements@ == v@, { unimplemented!() } }
pub enum Value { Tuple(MechTuple), Other(u64) }
pub struct MechError { pub id: u64 }
pub struct Interpreter { pub id: u64 }
pub struct Environment { pub id: u64 }
pub uninterp spec fn ptv(pat: Pattern, env: Environment) -> Option<Value>;        // pattern_to_value on one pattern (the recursive call); None = error
pub uninterp spec fn atom_of(name: Identifier) -> Value;                          // the value of the atom `:Name`
#[verifier::external_body]
pub fn pattern_to_value_rec(pattern: &Pattern, env: &Environment, p: &Interpreter) -> (r: Result<Value, MechError>)
  ensures (match r { Ok(v) => ptv(*pattern, *env) == Some(v), Err(_) => ptv(*pattern, *env) is None }),
{ unimplemented!() }
#[verifier::external_body]
pub fn atom(a: &Atom, p: &Interpreter) -> (r: Value) ensures r == atom_of(a.name), { unimplemented!() }
// ---- THE CONTRACT (C17: "the sequence of states visited is exactly the one the declaration determines"): the state a transition `-> :S(e1, .., en)` leads to is the
// tuple (atom :S, value of e1, .., value of en), each element evaluated once, in order; a tuple pattern denotes the tuple of its elements' values; a failing element is an error
pub open spec fn vals(pats: Seq<Pattern>, env: Environment) -> Option<Seq<Value>> decreases pats.len() {
  if pats.len() == 0 { Some(Seq::empty()) } else {
    match (vals(pats.drop_last(), env), ptv(pats.last(), env)) { (Some(vs), Some(v)) => Some(vs.push(v)), _ => None }
  }
}
pub proof fn lemma_prefix_none(pats: Seq<Pattern>, env: Environment, k: int)
  requires 0 <= k <= pats.len(), vals(pats.subrange(0, k), env) is None,
  ensures vals(pats, env) is None,
  decreases pats.len() - k,
{
  if k < pats.len() {
    assert(pats.subrange(0, k + 1).drop_last() =~= pats.subrange(0, k));
    lemma_prefix_none(pats, env, k + 1);
  } else {
    assert(pats.subrange(0, k) =~= pats);
  }
}
"""


def _ptv_loop(b, xs, acc, prefix, what):
    """`for inner in &XS { ACC.push(pattern_to_value(inner, env, p)?); }` -> index loop with the invariant `ACC == PREFIX + the values of the first i_ patterns`"""
    def one(m):
        v = m.group(1)
        return ("for i_ in 0..%s.len()\n    invariant vals(%s@.subrange(0, i_ as int), *env) == Some(%s@.subrange(%s, %s@.len() as int)), %s@.len() == %s + i_, %s\n  {\n"
                "    let %s = &%s[i_];\n"
                "    proof { assert(%s@.subrange(0, i_ + 1).drop_last() =~= %s@.subrange(0, i_ as int)); assert(%s@.subrange(0, i_ + 1).last() == %s@[i_ as int]);\n"
                "            if ptv(%s@[i_ as int], *env) is None { lemma_prefix_none(%s@, *env, i_ + 1); } }"
                % (xs, xs, acc, prefix, acc, acc, prefix, ("%s@[0] == atom_of(%s.name)," % (acc, what)) if prefix == "1" else "",
                   v, xs, xs, xs, xs, xs, xs, xs))
    b, n = re.subn(r"for\s+(\w+)\s+in\s+&%s\s*\{" % re.escape(xs), one, b)
    # after the loop: the prefix is the whole list
    hint = ("proof { assert(%s@.subrange(0, %s@.len() as int) =~= %s@); assert(%s@ =~= %s@.subrange(0, %s) + %s@.subrange(%s, %s@.len() as int)); %s }\n      "
            % (xs, xs, xs, acc, acc, prefix, acc, prefix, acc, ("assert(%s@.subrange(0, 1) =~= seq![%s@[0]]);" % (acc, acc)) if prefix == "1" else ""))
    b = re.sub(r"(return\s+Ok\(\s*Value::Tuple)", lambda m_: hint + m_.group(1), b, count=1)
    return b, n


def ptv_fns(text, features):
    """of `pattern_to_value`: (a) the arm `Pattern::Tuple(pattern_tuple) => {..}` as `fn tuple_value(pattern_tuple, env, p)`, (b) the tail of the arm
    `Pattern::TupleStruct(..)` from `let mut values = Vec::with_capacity(..)` (the tuple that represents a state; DROPPED: the enum-variant case above it) as
    `fn state_value(pattern_tuple_struct, env, p)`: the element loops -> index loops, the recursive call -> the stand-in `.._rec`, `Ref::new(x)` -> `x`,
    `MResult` -> `Result<_, MechError>`; cfg attributes evaluated.  ASSUMED: patterns.len() + 1 does not overflow"""
    from units import vC16
    sig, body = extract_fn(text, "pattern_to_value")
    b = vC16.apply_cfg(re.sub(r"//[^\n]*", "", body).replace("\r", ""), features)
    b = b.replace("pattern_to_value(", "pattern_to_value_rec(")
    def deref(s):
        while True:
            m = re.search(r"\bRef::new\(", s)
            if not m:
                return s
            e = match_brace(s, m.end() - 1, "(", ")")
            s = s[:m.start()] + "(" + s[m.end():e - 1] + ")" + s[e:]
    out, fns = "", []
    m = re.search(r"Pattern::Tuple\(\s*(\w+)\s*\)\s*=>\s*\{", b)
    if not m:
        raise AnchorLost("pattern_to_value: the arm `Pattern::Tuple(..)` not found")
    pt = m.group(1)
    arm = deref(b[m.end():match_brace(b, m.end() - 1) - 1])
    arm, n = _ptv_loop(arm, pt + ".0", "values", "0", pt)
    if n != 1 or re.search(r"\b(iter|Ref)\b", arm):
        raise AnchorLost("pattern_to_value: the tuple arm is outside the transcription rules")
    out += ("fn tuple_value(%s: &PatternTuple, env: &Environment, p: &Interpreter) -> (res: Result<Value, MechError>)\n"
            "  ensures (match vals(%s.0@, *env) {\n      Some(vs) => res matches Ok(Value::Tuple(t)) && t.elements@ == vs,\n      None => res is Err }),\n{\n" % (pt, pt)
            + arm + "\n}\n")
    fns.append("tuple_value")
    m = re.search(r"Pattern::TupleStruct\(\s*(\w+)\s*\)\s*=>\s*\{", b)
    if not m:
        raise AnchorLost("pattern_to_value: the arm `Pattern::TupleStruct(..)` not found")
    ps = m.group(1)
    arm = b[m.end():match_brace(b, m.end() - 1) - 1]
    a = re.search(r"let\s+mut\s+values\s*=\s*Vec::with_capacity\(", arm)
    if not a:
        raise AnchorLost("pattern_to_value: the tuple construction of the tuple-struct arm not found")
    arm = deref(arm[a.start():])
    arm = re.sub(r"Atom\s*\{\s*name\s*:\s*([\w\.\(\)]+)\s*,?\s*\}", r"Atom { name: \1 }", arm)
    arm, n = _ptv_loop(arm, ps + ".patterns", "values", "1", ps)
    if n != 1 or re.search(r"\b(iter|Ref)\b", arm):
        raise AnchorLost("pattern_to_value: the tuple-struct arm is outside the transcription rules")
    out += ("fn state_value(%s: &PatternTupleStruct, env: &Environment, p: &Interpreter) -> (res: Result<Value, MechError>)\n"
            "  requires %s.patterns@.len() < usize::MAX,\n"
            "  ensures (match vals(%s.patterns@, *env) {\n      Some(vs) => res matches Ok(Value::Tuple(t)) && t.elements@ == seq![atom_of(%s.name)] + vs,\n      None => res is Err }),\n{\n" % (ps, ps, ps, ps)
            + arm + "\n}\n")
    fns.append("state_value")
    return out, fns


def ptv_unit(text, features):
    body, fns = ptv_fns(text, features)
    return "use vstd::prelude::*;\nverus! {\n" + PTV_MODEL + body + vlib.verus_canary("canary_ptv", "x: u64", []) + "\n} // verus!\nfn main() {}\n", fns


# ---- state_name_from_pattern (whole) -----------------------------------------------------------------------------------------------
SNAME_MODEL = """
#[derive(Clone, Copy)]
pub struct Identifier { pub id: u64 }
#[derive(PartialEq, Eq, Structural)]
pub struct NameS { pub id: u64 }
pub uninterp spec fn name_str(i: Identifier) -> NameS;
impl Identifier { #[verifier::external_body] pub fn to_string(&self) -> (r: NameS) ensures r == name_str(*self), { unimplemented!() } }
pub struct PatternTupleStruct { pub name: Identifier, pub id: u64 }
pub struct Atom { pub name: Identifier }
pub enum Literal { Atom(Atom), Other(u64) }
pub enum Expression { Literal(Literal), Other(u64) }
pub enum Pattern { TupleStruct(PatternTupleStruct), Expression(Expression), Other(u64) }
// ---- THE CONTRACT (C17: "a transition to an undeclared state ... is rejected"): the state a pattern names is the name of a `:Name(..)` pattern or of a bare atom `:Name`;
// any other pattern names no state (and is therefore not checked against the declared states)
pub open spec fn names_state(p: Pattern) -> Option<NameS> {
  match p {
    Pattern::TupleStruct(t) => Some(name_str(t.name)),
    Pattern::Expression(Expression::Literal(Literal::Atom(a))) => Some(name_str(a.name)),
    _ => None,
  }
}
"""


def state_name_unit(text):
    """`state_name_from_pattern` (whole body, verbatim; `String` -> an opaque name value)"""
    sig, body = extract_fn(text, "state_name_from_pattern")
    b = re.sub(r"//[^\n]*", "", body).replace("\r", "")
    return ("use vstd::prelude::*;\nverus! {\n" + SNAME_MODEL +
            "fn state_name_from_pattern(pattern: &Pattern) -> (r: Option<NameS>)\n  ensures r == names_state(*pattern),\n" + b + "\n"
            + vlib.verus_canary("canary_sname", "x: u64", []) + "\n} // verus!\nfn main() {}\n")
