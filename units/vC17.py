"""(F) Verus contract on `execute_fsm_pipe_impl` (src/interpreter/src/state_machines.rs), the whole body, extracted on every run,
onto contracts/C17/fsmmodel.rs.  Mechanical rewrites (anything else is a lost anchor):
  S1  every `trace_println!( .. );` statement is removed (tracing only)
  S2  `for (i, x) in xs.iter().enumerate() {` -> `for i in 0..xs.len() { let x = &xs[i];`   (xs = fsm.arms, guards)
  S3  `continue` (Verus for-loops have none): a match arm `=> continue,` -> `=> {},` and `if c { continue; } rest` ->
      `if !(c) { rest }`, each only after checking that nothing but closing braces follows up to the end of the loop body
  S4  `return Ok(e)` -> `return Some(e)`; `return Err(..)` and the final `Err(..)` -> `None`
The contract: the result equals `run(arms, max_steps, state, env)` of the model, the semantics written from the property."""
import re
import vlib
from vlib import AnchorLost, find_code, match_brace, extract_fn
from units import vmat
from units.vC16 import strip_macro_stmts, err_to_none

PATH = "src/interpreter/src/state_machines.rs"


def _model():
    import os
    return open(os.path.join(os.path.dirname(os.path.dirname(os.path.abspath(__file__))), "contracts", "C17", "fsmmodel.rs")).read()


def enclosing_blocks(b, pos):
    """[(open, close)] of the brace blocks containing pos, outermost first (close = index of the `}`)"""
    stack, res = [], None
    for i, c in enumerate(b):
        if i == pos:
            res = list(stack)
        if c == "{":
            stack.append(i)
        elif c == "}":
            o = stack.pop()
            if res is not None and o in res:
                res[res.index(o)] = (o, i)
    return [x for x in (res or []) if isinstance(x, tuple)]


def _is_loop_body(b, open_idx):
    return re.search(r"\bfor\s+[^{};]*$", b[:open_idx]) is not None


def _nothing_follows(b, blk, blocks):
    """after block `blk` only closing braces / commas follow up to the end of the innermost enclosing loop body"""
    k = blocks.index(blk)
    end = blk[1]
    for outer in reversed(blocks[:k]):
        if re.search(r"[^\s},]", b[end + 1:outer[1]]):
            return False
        end = outer[1]
        if _is_loop_body(b, outer[0]):
            return True
    return False


def continue_to_guard(b):
    # S3a: `=> continue,` in a match
    while True:
        m = re.search(r"=>\s*continue\s*,", b)
        if not m:
            break
        blocks = enclosing_blocks(b, m.start())
        mb = blocks[-1]                  # the match body
        if not _nothing_follows(b, mb, blocks):
            raise AnchorLost("`=> continue` in a match that is not the last statement of its loop body")
        b = b[:m.start()] + "=> {}," + b[m.end():]
    # S3b: `if c { continue; } rest`
    while True:
        m = re.search(r"\bif\s+([^{};]*?)\s*\{\s*continue\s*;\s*\}", b)
        if not m:
            break
        blocks = enclosing_blocks(b, m.start())
        eb = blocks[-1]
        if not (_is_loop_body(b, eb[0]) or _nothing_follows(b, eb, blocks)):
            raise AnchorLost("`if c { continue; }` followed by statements outside its block in the loop body")
        b = b[:m.start()] + "if !(" + m.group(1) + ") {" + b[m.end():eb[1]] + "}\n" + b[eb[1]:]
    if re.search(r"\bcontinue\b", b):
        raise AnchorLost("a `continue` outside the two shapes the rewrite handles")
    return b


def fsm_body(text):
    sig, body = extract_fn(text, "execute_fsm_pipe_impl")
    b = re.sub(r"//[^\n]*", "", body).replace("\r", "").strip()[1:-1]
    b = strip_macro_stmts(b, "trace_println")
    b, n1 = re.subn(r"for\s+\((\w+),\s*(\w+)\)\s+in\s+(fsm\.arms|guards)\.iter\(\)\.enumerate\(\)\s*\{", r"for \1 in 0..\3.len() { let \2 = &\3[\1];", b)
    if n1 != 2:
        raise AnchorLost("execute_fsm_pipe_impl: expected the loops over fsm.arms and over guards")
    b = continue_to_guard(b)
    b = re.sub(r"\breturn\s+Ok\s*\(", "return Some(", b)
    b = err_to_none(b)
    if re.search(r"\b(Ok|Err|MechError|trace_println|format)\b", b):
        raise AnchorLost("execute_fsm_pipe_impl: statements outside the transcription rules")
    return b


A = "fsm.arms@"
R0 = "run(%s, p.max_steps as int, *old(state), *old(call_env))" % A
CTX = "step < p.max_steps, run(%s, p.max_steps - step, s_in, e_in) == %s" % (A, R0)
LOOPS = [
    ("    invariant run(%s, p.max_steps - step, *state, *call_env) == %s," % (A, R0),
     "let ghost s_in = *state; let ghost e_in = *call_env;"),
    ("    invariant_except_break !transitioned, *state == s_in, *call_env == e_in, step_from(%s, 0, s_in, e_in) == step_from(%s, arm_idx as int, s_in, e_in),\n"
     "    invariant " % (A, A) + CTX + ",\n"
     "    ensures transitioned ==> step_from(%s, 0, s_in, e_in) == Step::Next(*state, *call_env),\n"
     "      !transitioned ==> *state == s_in && *call_env == e_in && step_from(%s, 0, s_in, e_in) == Step::Halt," % (A, A), ""),
    ("    invariant_except_break !transitioned, *state == s_in, *call_env == e_in, arm_env == bindv(*pattern, s_in, cl(*pattern, e_in)),\n"
     "      gstep(guards@, 0, s_in, arm_env) == gstep(guards@, guard_idx as int, s_in, arm_env),\n"
     "    invariant " + CTX + ", arm_idx < %s.len(), *arm == %s[arm_idx as int], *arm == FsmArm::Guard(*pattern, *guards),\n"
     "      step_from(%s, 0, s_in, e_in) == step_from(%s, arm_idx as int, s_in, e_in), pmv(*pattern, s_in, cl(*pattern, e_in)) == Some(true),\n"
     "    ensures transitioned ==> step_from(%s, 0, s_in, e_in) == Step::Next(*state, *call_env),\n"
     "      !transitioned ==> *state == s_in && *call_env == e_in && gstep(guards@, 0, s_in, bindv(*pattern, s_in, cl(*pattern, e_in))) is None," % (A, A, A, A, A), ""),
]


def fsm_fn(text):
    b = fsm_body(text)
    n = len(vlib.find_all_code(b, r"\bfor\b"))
    if n != len(LOOPS):
        raise AnchorLost("execute_fsm_pipe_impl: %d loops, the contract was written for %d" % (n, len(LOOPS)))
    b = vmat.inject(b, LOOPS)
    return ("fn execute_fsm_pipe_impl(fsm: &FsmImplementation, state: &mut Value, call_env: &mut Environment, p: &Interpreter) -> (res: Option<Value>)\n"
            "  ensures res == %s,\n{\n" % R0 + b + "\n}\n")


def unit_text():
    text = vlib.read_repo(PATH)
    return vlib.verus_file([_model(), fsm_fn(text), vlib.verus_canary("canary_fsm", "x: u64", [])])
