"""(K) Verus transcription of the row-selection skeleton of `TableJoinFxn::build_joined_table`
(src/interpreter/src/stdlib/table_ops.rs) onto contracts/C18/joinmodel.rs.

What is verified is the text of the real function from `let mut out_rows` up to (not including) `let mut data: IndexMap`,
re-extracted on every run, after these mechanical rewrites (nothing else is touched; an unexpected shape is a lost anchor):
  J1  `Vec<HashMap<u64, Value>>` -> `Vec<Row>`; `vec![]` -> `Vec::new()`; `vec![false; rhs.rows]` -> `vec_false(rhs_rows)`
  J2  `lhs.rows` / `rhs.rows` -> the parameters `lhs_rows` / `rhs_rows`
  J3  `a..=b` -> `a..b + 1` (precondition: row counts below usize::MAX)
  J4  `rows_match(lhs, l, rhs, r, &common_cols)` -> `rows_match(l, r)` (uninterpreted relation `rm`);
      `merge_rows(lhs, l, rhs, r, &common_rhs, e)` -> `merge_rows(l, r, e)`; `lhs_only_row(lhs, l)` -> `lhs_only_row(l)`
  J5  `for rhs_row in matched_rhs {` -> `for k_ in 0..matched_rhs.len() { let rhs_row = matched_rhs[k_];`
  J6  the block `let mut row = HashMap::new(); .. out_rows.push(row);` that builds the padded row of an unmatched rhs row ->
      `out_rows.push(rhs_padded_row(rhs_row));`   (DROPPED: how the three row builders fill the columns)
  J7  `if c { continue; } rest` -> `if !(c) { rest }` (Verus for-loops have no `continue`)
The enum `JoinMode` is copied verbatim."""
import re
import vlib
from vlib import AnchorLost, find_code, match_brace, extract_fn
from units import vmat

PATH = "src/interpreter/src/stdlib/table_ops.rs"
JOIN_LOCALS = ['out_rows', 'rhs_matched', 'lhs_row', 'matched_rhs', 'rhs_row', 'row', 'lhs_id', 'rhs_id', 'l', 'value', 'col']
RM_LOCALS = ['lhs_col', 'rhs_col', 'lhs_val', 'col', 'rhs_val']
TABLE_LOCALS = {"TableAccessRangeIndex": ['table', 'out_table', 'ix_brrw', '_out_kind', 'out_matrix', 'out_i', 'i', 'value'], "TableAccessRangeBool": ['table', 'ix_brrw', 'true_count', 'b', 'out_table', '_out_kind', 'out_matrix', 'push_index', 'i', 'flag', 'value']}


def _model():
    import os
    return open(os.path.join(os.path.dirname(os.path.dirname(os.path.abspath(__file__))), "contracts", "C18", "joinmodel.rs")).read()


def _call_args(b, m_end):
    """b[m_end-1] == '(' : (list of top-level args, index past ')')"""
    e = match_brace(b, m_end - 1, "(", ")")
    return [a.strip() for a in vmat._split_top_commas(b[m_end:e - 1])], e


def _rewrite_calls(b, name, keep, nargs):
    out, pos = "", 0
    n = 0
    for m in list(re.finditer(r"\b%s\s*\(" % name, b)):
        if m.start() < pos:
            continue
        args, e = _call_args(b, m.end())
        if args and args[-1] == "":
            args = args[:-1]
        if len(args) != nargs:
            raise AnchorLost("%s: expected %d arguments, found %d" % (name, nargs, len(args)))
        out += b[pos:m.start()] + "%s(%s)" % (name, ", ".join(args[i] for i in keep))
        pos = e
        n += 1
    return out + b[pos:], n


def enum_text(text):
    m = find_code(text, r"enum\s+JoinMode\s*\{")
    if not m:
        raise AnchorLost("enum JoinMode not found")
    e = match_brace(text, m.end() - 1)
    return "#[derive(Clone, Copy)]\npub " + re.sub(r"//[^\n]*", "", text[m.start():e]) + "\n"


def skeleton(text):
    m = find_code(text, r"impl\s+TableJoinFxn\s*\{")
    if not m:
        raise AnchorLost("impl TableJoinFxn not found")
    blk = text[m.start():match_brace(text, m.end() - 1)]
    sig, body = extract_fn(blk, "build_joined_table")
    a = find_code(body, r"let\s+mut\s+\w+\s*:\s*Vec<HashMap<u64,\s*Value>>\s*=\s*vec!\[\]\s*;")
    z = find_code(body, r"let\s+mut\s+data\s*:\s*IndexMap")
    if not a or not z or z.start() < a.start():
        raise AnchorLost("build_joined_table: `let mut out_rows` .. `let mut data: IndexMap` not found")
    b = re.sub(r"//[^\n]*", "", body[a.start():z.start()]).replace("\r", "")
    b = vlib.canon_bindings(sig, b, ["lhs", "rhs", "mode"], JOIN_LOCALS)
    # J1
    b, n1 = re.subn(r"let\s+mut\s+out_rows\s*:\s*Vec<HashMap<u64,\s*Value>>\s*=\s*vec!\[\]\s*;", "let mut out_rows: Vec<Row> = Vec::new();", b)
    b, n2 = re.subn(r"let\s+mut\s+rhs_matched\s*:\s*Vec<bool>\s*=\s*vec!\[false;\s*rhs\.rows\]\s*;", "let mut rhs_matched: Vec<bool> = vec_false(rhs_rows);", b)
    b, n3 = re.subn(r"let\s+mut\s+matched_rhs\s*:\s*Vec<usize>\s*=\s*vec!\[\]\s*;", "let mut matched_rhs: Vec<usize> = Vec::new();", b)
    if (n1, n2, n3) != (1, 1, 1):
        raise AnchorLost("build_joined_table: the declarations of out_rows / rhs_matched / matched_rhs changed shape")
    # J6 (before J4: the dropped block contains no calls we count)
    r0 = find_code(b, r"let\s+mut\s+row\s*=\s*HashMap::new\(\)\s*;")
    r1 = find_code(b, r"out_rows\.push\(row\)\s*;")
    if not r0 or not r1 or r1.start() < r0.start():
        raise AnchorLost("build_joined_table: the padded-row block of unmatched rhs rows not found")
    b = b[:r0.start()] + "out_rows.push(rhs_padded_row(rhs_row));" + b[r1.end():]
    # J2, J3
    b = re.sub(r"\blhs\.rows\b", "lhs_rows", b)
    b = re.sub(r"\brhs\.rows\b", "rhs_rows", b)
    b = re.sub(r"(\w+)\s*\.\.=\s*(\w+)", r"\1..\2 + 1", b)
    # J4
    b, c1 = _rewrite_calls(b, "rows_match", (1, 3), 5)
    b, c2 = _rewrite_calls(b, "merge_rows", (1, 3, 5), 6)
    b, c3 = _rewrite_calls(b, "lhs_only_row", (1,), 2)
    if c1 < 1:
        raise AnchorLost("build_joined_table: rows_match is no longer called")
    # J5
    b = re.sub(r"for\s+(\w+)\s+in\s+matched_rhs\s*\{", r"for k_ in 0..matched_rhs.len() { let \1 = matched_rhs[k_];", b)
    # J7
    while True:
        mc = re.search(r"if\s+([^{}]*?)\s*\{\s*continue\s*;\s*\}", b)
        if not mc:
            break
        # the enclosing block ends at the brace that closes the block containing this `if`
        depth, i = 0, mc.end()
        while i < len(b):
            if b[i] == "{":
                depth += 1
            elif b[i] == "}":
                if depth == 0:
                    break
                depth -= 1
            i += 1
        b = b[:mc.start()] + "if !(" + mc.group(1) + ") {" + b[mc.end():i] + "}\n" + b[i:]
    if re.search(r"\b(lhs|rhs|common_cols|common_rhs|HashMap)\b", b):
        raise AnchorLost("build_joined_table: the skeleton still mentions the tables after the rewrites (new code in the row-selection part)")
    return b


RIGHT = ("keeps_unmatched_right(mode) ==> forall|q: int| 0 <= q < rhs_rows ==> #[trigger] rhs_matched@[q] == %s")
KINV = ("    invariant lhs_rows < usize::MAX, rhs_rows < usize::MAX, 1 <= lhs_row <= lhs_rows, rhs_matched@.len() == rhs_rows,\n"
        "      matched_rhs@ == matches_of(lhs_row as int, rhs_rows as int),\n"
        "      forall|j: int| 0 <= j < matched_rhs@.len() ==> 1 <= (#[trigger] matched_rhs@[j]) <= rhs_rows,\n"
        "      out_rows@ == left_part(mode, lhs_row - 1, rhs_rows as int) + pairs(lhs_row, matched_rhs@, k_ as int),\n"
        "      " + RIGHT % "(any_match(lhs_row - 1, q + 1) || exists|j: int| 0 <= j < k_ && #[trigger] matched_rhs@[j] == q + 1)" + ",")
KBEFORE = "proof { lemma_matches_of(lhs_row as int, rhs_rows as int); }"
# invariants are attached by loop HEADER (after the rewrites), not by ordinal: an extra loop over `matched_rhs` in some arm gets the
# invariant of such a loop (and has to do what such a loop does in a join); a loop with an unknown header is a lost anchor
LOOP_SPECS = {
    "lhs": ("    invariant lhs_rows < usize::MAX, rhs_rows < usize::MAX, rhs_matched@.len() == rhs_rows,\n"
            "      out_rows@ == left_part(mode, lhs_row - 1, rhs_rows as int),\n"
            "      " + RIGHT % "any_match(lhs_row - 1, q + 1)" + ","),
    "collect": "    invariant rhs_rows < usize::MAX, matched_rhs@ == matches_of(lhs_row as int, rhs_row - 1),",
    "matched": KINV,
    "unmatched": ("    invariant rhs_rows < usize::MAX, rhs_matched@.len() == rhs_rows, keeps_unmatched_right(mode),\n"
                  "      forall|q: int| 0 <= q < rhs_rows ==> #[trigger] rhs_matched@[q] == any_match(lhs_rows as int, q + 1),\n"
                  "      out_rows@ == left_part(mode, lhs_rows as int, rhs_rows as int) + right_part(lhs_rows as int, rhs_row - 1),"),
}


def loop_specs(b):
    """which invariant a loop gets is decided by WHAT it ranges over (lhs rows / rhs rows inside the lhs loop = collecting the
    matches / the collected matches / rhs rows after the lhs loop = the unmatched ones), not by its ordinal"""
    specs = []
    ml = re.search(r"for\s+lhs_row\s+in\b", b)
    lhs_span = (ml.start(), match_brace(b, b.index("{", ml.end()))) if ml else (0, 0)
    for m in vlib.find_all_code(b, r"\bfor\b"):
        head = b[m.start():b.index("{", m.start())]
        mk = re.match(r"for\s+(\w+)\s+in\s+0\.\.matched_rhs\.len\(\)", head)
        if re.match(r"for\s+lhs_row\s+in\b", head):
            specs.append((LOOP_SPECS["lhs"], ""))
        elif re.match(r"for\s+rhs_row\s+in\s+\d", head):
            specs.append((LOOP_SPECS["collect" if lhs_span[0] < m.start() < lhs_span[1] else "unmatched"], ""))
        elif mk:
            specs.append((re.sub(r"\bk_\b", mk.group(1), LOOP_SPECS["matched"]), ""))
        else:
            raise AnchorLost("build_joined_table: a loop the contract has no invariant for: `%s`" % head.strip()[:60])
    return specs


def join_fn(text):
    b = skeleton(text)
    b = vmat.inject(b, loop_specs(b))
    # ghost only: the facts about `matches_of` are needed by every arm of the `match mode`
    b, nm = re.subn(r"match\s+mode\s*\{", KBEFORE + "\n      match mode {", b, count=1)
    if nm != 1:
        raise AnchorLost("build_joined_table: `match mode {` not found")
    return ("fn join_row_selection(lhs_rows: usize, rhs_rows: usize, mode: JoinMode) -> (out_rows: Vec<Row>)\n"
            "  requires lhs_rows < usize::MAX, rhs_rows < usize::MAX,\n"
            "  ensures out_rows@ == join_rows(mode, lhs_rows as int, rhs_rows as int),\n{\n" + b + "\n  out_rows\n}\n")


def unit_text():
    text = vlib.read_repo(PATH)
    return vlib.verus_file([enum_text(text), _model(), join_fn(text), vlib.verus_canary("canary_join", "x: u64", [])])


# ---------------------------------------------------------------------------------------------------------------------
# Selecting table rows: TableAccessRangeIndex::solve / TableAccessRangeBool::solve (src/interpreter/src/stdlib/access/table.rs)
TPATH = "src/interpreter/src/stdlib/access/table.rs"
TMODEL = """
// `Matrix::<Value>::index1d(ix)`: 1-based, `index(ix - 1)`, panics when ix == 0 or ix > len
pub fn index1d(m: &Mat, ix: usize) -> (o: Option<u64>)
  ensures (1 <= ix <= m.d@.len()) ==> o == Some(m.d@[ix - 1]), !(1 <= ix <= m.d@.len()) ==> o.is_none(),
{ let k = dec(ix)?; m.get1(k) }
// `Matrix::<Value>::set_index1d(index, value)`: 0-based `v[index] = value`, panics when index >= len
pub fn set_index1d(m: &mut Mat, index: usize, value: u64) -> (o: Option<()>)
  ensures index < old(m).d@.len() ==> o.is_some() && final(m).d@ == old(m).d@.update(index as int, value),
          index >= old(m).d@.len() ==> o.is_none() && final(m).d@ == old(m).d@,
          final(m).r == old(m).r, final(m).c == old(m).c,
{ m.set1(index, value) }
// `ix.iter().filter(|&&b| b).count()`
#[verifier::external_body]
pub fn count_true(ix: &BVec) -> (n: usize) ensures n == cnt(ix.d@, ix.d@.len() as int), { unimplemented!() }
"""


def table_solve(text, struct):
    """the statements of `<struct>::solve` for ONE column of the table: the header `for (key, (_kind, matrix)) in table.data.iter() {`
    with its closing brace and the lookup `let (_out_kind, out_matrix) = out_table.data.get_mut(key).unwrap();` are removed
    (matrix / out_matrix become parameters; DROPPED: the iteration over the IndexMap of columns), the borrows of self.* are removed,
    `for (a, b) in ix_brrw.iter().enumerate() {` -> `for a in 0..ix_brrw.len() { let b = ix_brrw.d[a];` and `*b` -> `b`,
    `matrix.index1d(e)` -> `index1d(matrix, e)?`, `out_matrix.set_index1d(a, v.clone())` -> `set_index1d(out_matrix, a, v)?`,
    `out_matrix.resize_vertically(n, Value::Empty)` -> `out_matrix.resize_vertically_mut(n, 0)`,
    `ix_brrw.iter().filter(|&&b| b).count()` -> `count_true(ix_brrw)`, `out_table.rows = e` -> `*out_rows = e`, `return;` -> `return Some(());`."""
    m = find_code(text, r"impl\s+MechFunctionImpl\s+for\s+%s\s*\{" % struct)
    if not m:
        raise AnchorLost("impl MechFunctionImpl for %s not found" % struct)
    blk = text[m.start():match_brace(text, m.end() - 1)]
    sig, body = extract_fn(blk, "solve")
    b = re.sub(r"//[^\n]*", "", body).replace("\r", "").strip()[1:-1]
    b = vlib.canon_bindings(sig, b, ["self"], TABLE_LOCALS[struct])
    n = 0
    for pat in (r"let\s+table\s*=\s*self\.source\.borrow\(\)\s*;", r"let\s+mut\s+out_table\s*=\s*self\.out\.borrow_mut\(\)\s*;", r"let\s+ix_brrw\s*=\s*self\.ix\.borrow\(\)\s*;"):
        b, k = re.subn(pat, "", b)
        n += k
    if n != 3:
        raise AnchorLost("%s::solve: the three borrows of self.source / self.out / self.ix changed" % struct)
    mh = re.search(r"for\s+\(key,\s*\(_kind,\s*matrix\)\)\s+in\s+table\.data\.iter\(\)\s*\{", b)
    if not mh:
        raise AnchorLost("%s::solve: the loop over the table's columns not found" % struct)
    e = match_brace(b, mh.end() - 1)
    b = b[:mh.start()] + b[mh.end():e - 1] + b[e:]
    b, k = re.subn(r"let\s+\(_out_kind,\s*out_matrix\)\s*=\s*out_table\.data\.get_mut\(key\)\.unwrap\(\)\s*;", "", b)
    if k != 1:
        raise AnchorLost("%s::solve: the lookup of the output column changed" % struct)
    b = re.sub(r"ix_brrw\.iter\(\)\.filter\(\|&&b\|\s*b\)\.count\(\)", "count_true(ix_brrw)", b)
    ml = re.search(r"for\s+\((\w+),\s*(\w+)\)\s+in\s+ix_brrw\.iter\(\)\.enumerate\(\)\s*\{", b)
    if not ml:
        raise AnchorLost("%s::solve: the loop over the index vector not found" % struct)
    a_, b_ = ml.group(1), ml.group(2)
    b = b[:ml.start()] + "for %s in 0..ix_brrw.len() { let %s = ix_brrw.d[%s];" % (a_, b_, a_) + b[ml.end():]
    b = re.sub(r"\*%s\b" % b_, b_, b)
    b = re.sub(r"\bmatrix\.index1d\(([^()]*)\)", r"index1d(matrix, \1)?", b)
    while True:
        ms = re.search(r"\bout_matrix\.set_index1d\s*\(", b)
        if not ms:
            break
        args, e = _call_args(b, ms.end())
        if len(args) != 2:
            raise AnchorLost("%s::solve: set_index1d with %d arguments" % (struct, len(args)))
        b = b[:ms.start()] + "set_index1d(out_matrix, %s, %s)?" % (args[0], re.sub(r"\.clone\(\)$", "", args[1])) + b[e:]
    b = re.sub(r"\bout_matrix\.resize_vertically\((\w+),\s*Value::Empty\)", r"out_matrix.resize_vertically_mut(\1, 0)", b)
    b = re.sub(r"\bout_table\.rows\s*=", "*out_rows =", b)
    b = re.sub(r"\breturn\s*;", "return Some(());", b)       # solve() returns (): a plain return is a normal return
    if re.search(r"\b(self|table|out_table|key|iter)\b", b):
        raise AnchorLost("%s::solve: statements outside the transcription rules" % struct)
    return b, a_, b_


def table_index_fn(text):
    b, a_, b_ = table_solve(text, "TableAccessRangeIndex")
    inv = ("    invariant matrix.wf(), matrix.c == 1, out_matrix.c == 1, out_matrix.r == ix_brrw.d@.len(), out_matrix.d@.len() == ix_brrw.d@.len(),\n"
           "      forall|k: int| 0 <= k < %s ==> 1 <= (#[trigger] ix_brrw.d@[k]) <= matrix.d@.len() && out_matrix.d@[k] == matrix.d@[ix_brrw.d@[k] - 1]," % a_)
    b = vmat.inject(b, [(inv, "")])
    return ("fn table_rows_by_index(matrix: &Mat, ix_brrw: &IVec, out_matrix: &mut Mat, out_rows: &mut usize) -> (res: Option<()>)\n"
            "  requires matrix.wf(), matrix.c == 1, old(out_matrix).wf(), old(out_matrix).c == 1, old(out_matrix).r == ix_brrw.d@.len(), *old(out_rows) == ix_brrw.d@.len(),\n"
            "  ensures res.is_some() ==> final(out_matrix).d@.len() == ix_brrw.d@.len() && *final(out_rows) == ix_brrw.d@.len()\n"
            "      && forall|k: int| 0 <= k < ix_brrw.d@.len() ==> 1 <= (#[trigger] ix_brrw.d@[k]) <= matrix.d@.len() && final(out_matrix).d@[k] == matrix.d@[ix_brrw.d@[k] - 1],\n"
            "    (forall|k: int| 0 <= k < ix_brrw.d@.len() ==> 1 <= (#[trigger] ix_brrw.d@[k]) <= matrix.d@.len()) ==> res.is_some(),\n{\n"
            + b + "\n  Some(())\n}\n")


def table_mask_fn(text):
    b, a_, b_ = table_solve(text, "TableAccessRangeBool")
    inv = ("    invariant matrix.wf(), matrix.c == 1, out_matrix.wf(), out_matrix.c == 1, out_matrix.r == cnt(ix_brrw.d@, ix_brrw.d@.len() as int), true_count == out_matrix.r,\n"
           "      push_index == cnt(ix_brrw.d@, %s as int), push_index <= %s,\n"
           "      forall|k: int| 0 <= k < %s && #[trigger] ix_brrw.d@[k] ==> k < matrix.d@.len() && cnt(ix_brrw.d@, k) < push_index && out_matrix.d@[cnt(ix_brrw.d@, k)] == matrix.d@[k]," % (a_, a_, a_))
    ghost = "proof { lemma_cnt_mono(ix_brrw.d@, %s as int + 1, ix_brrw.d@.len() as int); lemma_mul_ge(out_matrix.r as int, 1); }" % a_
    b = vmat.inject(b, [(inv, ghost)])
    return ("fn table_rows_by_mask(matrix: &Mat, ix_brrw: &BVec, out_matrix: &mut Mat, out_rows: &mut usize) -> (res: Option<()>)\n"
            "  requires matrix.wf(), matrix.c == 1, old(out_matrix).wf(), old(out_matrix).c == 1,\n"
            "  ensures res.is_some() ==> final(out_matrix).d@.len() == cnt(ix_brrw.d@, ix_brrw.d@.len() as int) && *final(out_rows) == cnt(ix_brrw.d@, ix_brrw.d@.len() as int)\n"
            "      && forall|k: int| 0 <= k < ix_brrw.d@.len() && #[trigger] ix_brrw.d@[k] ==> k < matrix.d@.len() && final(out_matrix).d@[cnt(ix_brrw.d@, k)] == matrix.d@[k],\n"
            "    ix_brrw.d@.len() <= matrix.d@.len() ==> res.is_some(),\n{\n"
            + b + "\n  Some(())\n}\n")


def table_unit_text():
    text = vlib.read_repo(TPATH)
    return vlib.verus_file([vmat.model_text(), TMODEL, table_index_fn(text), table_mask_fn(text), vlib.verus_canary("canary_tablerows", "x: u64", [])])


# ---------------------------------------------------------------------------------------------------------------------
# rows_match: "matching on ALL commonly named columns"
RM_MODEL = """
pub struct MechTable { pub id: u64 }
pub uninterp spec fn cellv(t: MechTable, col: u64, row: int) -> Option<u64>;
// `t.data.get(col).map(|(_, c)| c.index1d(row))`: the cell of column `col` in row `row`, if the table has that column
#[verifier::external_body]
pub fn cell(t: &MechTable, col: &u64, row: usize) -> (o: Option<u64>) ensures o == cellv(*t, *col, row as int), { unimplemented!() }
pub fn opt_eq(a: Option<u64>, b: Option<u64>) -> (r: bool) ensures r == (a == b),
{ match (a, b) { (Some(x), Some(y)) => x == y, (None, None) => true, _ => false } }
"""


def rows_match_fn(text):
    """`rows_match` (src/interpreter/src/stdlib/table_ops.rs), whole body: `xs.iter().all(|(a, b)| { stmts; e })` ->
    `for k_ in 0..xs.len() { let (a, b) = (&xs[k_].0, &xs[k_].1); stmts; if !(e) { return false; } } true` (`.any` -> the dual),
    `t.data.get(c).map(|(_, col)| col.index1d(r))` -> `cell(t, c, r)`, `x == y` on the two optional cells -> `opt_eq(x, y)`."""
    sig, body = extract_fn(text, "rows_match")
    b = re.sub(r"//[^\n]*", "", body).replace("\r", "").strip()[1:-1].strip()
    b = vlib.canon_bindings(sig, b, ["lhs", "lhs_row", "rhs", "rhs_row", "common_cols"], RM_LOCALS)
    m = re.search(r"(\w+)\.iter\(\)\.(all|any)\(\|\((\w+),\s*(\w+)\)\|\s*\{", b)
    if not m:
        return _rows_match_loop_form(b)
    # statements before the iterator expression (e.g. an early `return`) are kept verbatim
    pre = b[:m.start()]
    if pre.strip() and (not pre.rstrip().endswith(("}", ";")) or re.search(r"\b(data|iter|map|for|while|loop)\b", pre)):
        raise AnchorLost("rows_match: statements before the iterator expression are outside the transcription rules")
    e = match_brace(b, m.end() - 1)
    if b[e:].strip() != ")":
        raise AnchorLost("rows_match: statements after the iterator expression")
    inner = b[m.end():e - 1]
    inner = re.sub(r"(\w+)\.data\.get\((\w+)\)\.map\(\|\(_,\s*col\)\|\s*col\.index1d\((\w+)\)\)", r"cell(\1, \2, \3)", inner)
    parts = [x.strip() for x in vmat._split_top_commas(inner.replace(";", ",")) if x.strip()]   # top-level statements
    stmts, last = parts[:-1], parts[-1]
    ml = re.fullmatch(r"(\w+)\s*==\s*(\w+)", last)
    if not ml or re.search(r"\b(data|iter|map)\b", inner):
        raise AnchorLost("rows_match: the closure body is outside the transcription rules")
    test = "opt_eq(%s, %s)" % (ml.group(1), ml.group(2))
    xs, kind, a_, b_ = m.group(1), m.group(2), m.group(3), m.group(4)
    EQ = "cellv(*lhs, %s@[%%s].0, lhs_row as int) == cellv(*rhs, %s@[%%s].1, rhs_row as int)" % (xs, xs)
    if kind == "all":
        tail = "if !(%s) { return false; }\n  }\n  true" % test
        inv = "    invariant forall|j: int| 0 <= j < k_ ==> " + EQ % ("j", "j") + ","
    else:
        tail = "if %s { return true; }\n  }\n  false" % test
        inv = "    invariant forall|j: int| 0 <= j < k_ ==> !(" + EQ % ("j", "j") + "),"
    loop = "  for k_ in 0..%s.len()\n%s\n  {\n    let (%s, %s) = (&%s[k_].0, &%s[k_].1);\n    %s;\n    %s\n" % (xs, inv, a_, b_, xs, xs, ";\n    ".join(stmts), tail)
    return ("fn rows_match(lhs: &MechTable, lhs_row: usize, rhs: &MechTable, rhs_row: usize, %s: &Vec<(u64, u64)>) -> (res: bool)\n"
            "  ensures res == (forall|k: int| 0 <= k < %s@.len() ==> %s),\n{\n" % (xs, xs, EQ % ("k", "k")) + pre + "\n" + loop + "\n}\n")


def _rows_match_loop_form(b):
    """the same function written as an explicit loop: `for (a, b) in xs.iter() { stmts; if <test> { return false; } } true` (tests `x == y` / `x != y` on the two optional
    cells -> `opt_eq`); statements before the loop are kept"""
    m = re.search(r"for\s+\(\s*(\w+)\s*,\s*(\w+)\s*\)\s+in\s+(?:&?(\w+)|(\w+)\.iter\(\))\s*\{", b)
    if not m:
        raise AnchorLost("rows_match: expected `common_cols.iter().all(|(lhs_col, rhs_col)| { .. })` or an explicit loop over the common columns")
    a_, b_, xs = m.group(1), m.group(2), m.group(3) or m.group(4)
    e = match_brace(b, m.end() - 1)
    pre, inner, tail = b[:m.start()], b[m.end():e - 1], b[e:].strip()
    if tail not in ("true", "false") or (pre.strip() and re.search(r"\b(data|iter|map|for|while|loop)\b", pre)):
        raise AnchorLost("rows_match: the explicit loop form is outside the transcription rules")
    inner = re.sub(r"(\w+)\.data\.get\((\w+)\)\.map\(\|\(_,\s*col\)\|\s*col\.index1d\((\w+)\)\)", r"cell(\1, \2, \3)", inner)
    inner = re.sub(r"\b(\w+)\s*==\s*(\w+)\b", r"opt_eq(\1, \2)", inner)
    inner = re.sub(r"\b(\w+)\s*!=\s*(\w+)\b", r"!opt_eq(\1, \2)", inner)
    if re.search(r"\b(data|iter|map|break)\b", inner):
        raise AnchorLost("rows_match: the loop body is outside the transcription rules")
    EQ = "cellv(*lhs, %s@[%%s].0, lhs_row as int) == cellv(*rhs, %s@[%%s].1, rhs_row as int)" % (xs, xs)
    inv = ("    invariant forall|j: int| 0 <= j < k_ ==> " + EQ % ("j", "j") + ",") if tail == "true" else ("    invariant forall|j: int| 0 <= j < k_ ==> !(" + EQ % ("j", "j") + "),")
    if re.search(r"\bcontinue\b", inner):      # this Verus has no `continue` in `for`: an index `while`, the index advanced at the top of the body
        inv_w = inv.replace("0 <= j < k_ ==>", "0 <= j < k_ - cur_ ==>").replace("    invariant ", "    invariant k_ <= %s@.len(), cur_ == 0, " % xs)
        loop = ("  let mut k_: usize = 0;\n  let ghost mut cur_: int = 0;\n  while k_ < %s.len()\n%s\n    decreases %s@.len() - k_,\n  {\n    let (%s, %s) = (&%s[k_].0, &%s[k_].1);\n"
                "    k_ += 1; proof { cur_ = 1; }\n%s\n    proof { cur_ = 0; }\n  }\n  %s" % (xs, inv_w, xs, a_, b_, xs, xs, re.sub(r"\bcontinue\s*;", "{ proof { cur_ = 0; } continue; }", inner), tail))
    else:
        loop = "  for k_ in 0..%s.len()\n%s\n  {\n    let (%s, %s) = (&%s[k_].0, &%s[k_].1);\n%s\n  }\n  %s" % (xs, inv, a_, b_, xs, xs, inner, tail)
    post = "res == (forall|k: int| 0 <= k < %s@.len() ==> %s)" % (xs, EQ % ("k", "k"))          # the property's clause, whatever the loop computes
    return ("fn rows_match(lhs: &MechTable, lhs_row: usize, rhs: &MechTable, rhs_row: usize, %s: &Vec<(u64, u64)>) -> (res: bool)\n"
            "  ensures %s,\n{\n" % (xs, post) + pre + "\n" + loop + "\n}\n")


# ---------------------------------------------------------------------------------------------------------------------
# the row builders: merge_rows (whole) and the padded row of an unmatched rhs row
def _row_model():
    import os
    return open(os.path.join(os.path.dirname(os.path.dirname(os.path.abspath(__file__))), "contracts", "C18", "rowmodel.rs")).read()


CELL_PAT = r"(\w+)\s*\.data\s*\.get\(\s*(\w+)\s*\)\s*\.map\(\s*\|\(_,\s*col\)\|\s*col\.index1d\(\s*(\w+)\s*\)\s*\)\s*\.unwrap_or\(\s*Value::Empty\s*\)"


def _row_rewrite(b, fname):
    """B1 `T.data.get(ID).map(|(_, col)| col.index1d(ROW)).unwrap_or(Value::Empty)` -> `cell(T, ID, ROW)`
       B2 `for (ID, _) in T.data.iter() {` -> `let mut i_ = 0; while i_ < T.data.len() { let ID = &T.data[i_]; i_ += 1;` (a `while`, because the bodies use `continue`)
       B3 `common_cols.iter().find(|(l, _)| l == lhs_id)` with the pattern `Some((_, rhs_id))` -> `find_common(common_cols, lhs_id)` with `Some(rhs_id)`"""
    b = re.sub(r"//[^\n]*", "", b).replace("\r", "")
    b = re.sub(CELL_PAT, r"cell(\1, \2, \3)", b)
    b = re.sub(r"if\s+let\s+Some\(\(_,\s*(\w+)\)\)\s*=\s*common_cols\.iter\(\)\.find\(\s*\|\(l,\s*_\)\|\s*l\s*==\s*(\w+)\s*\)", r"if let Some(\1) = find_common(common_cols, \2)", b)
    b = b.replace("cell(rhs, rhs_id, rhs_row)", "cell(rhs, RHS_ID_REF, rhs_row)")
    return b


MERGE_ENS = """  requires
    // the rhs-only columns carry other names (ids) than the lhs columns
    forall|i: int, j: int| 0 <= i < lhs.data@.len() && 0 <= j < rhs.data@.len() && !common_rhs@.contains(rhs.data@[j]) ==> lhs.data@[i] != rhs.data@[j],
  ensures
    // the row has the union of the columns: every lhs column, every rhs column that is not a common one
    forall|c: u64| row@.contains_key(c) <==> (has(lhs.data@, c) || (has(rhs.data@, c) && !common_rhs@.contains(c))),
    // lhs columns hold the lhs row's cells
    forall|i: int| 0 <= i < lhs.data@.len() ==> row@[#[trigger] lhs.data@[i]] == cellv(lhs.id, lhs.data@[i], lhs_row),
    // rhs-only columns hold the rhs row's cells -- and the EMPTY value precisely when there is no matching rhs row
    forall|j: int| 0 <= j < rhs.data@.len() && !common_rhs@.contains(rhs.data@[j]) ==>
      row@[#[trigger] rhs.data@[j]] == (if rhs_empty || rhs_row == 0 { Value::Empty } else { cellv(rhs.id, rhs.data@[j], rhs_row) }),
"""


def merge_rows_fn(text):
    """`merge_rows` (whole body), rules B1-B2; `HashMap::new()` kept (vstd's std HashMap specification)"""
    sig, body = extract_fn(text, "merge_rows")
    if len(vlib.param_names(sig)) != 6:
        raise AnchorLost("merge_rows: parameter list changed")
    b = body[body.index("{") + 1:body.rindex("}")]
    b = vlib.canon_bindings(sig, b, ["lhs", "lhs_row", "rhs", "rhs_row", "common_rhs", "rhs_empty"], ['row', 'lhs_id', 'value', 'col', 'rhs_id'])
    b = _row_rewrite(b, "merge_rows").replace("RHS_ID_REF", "rhs_id")
    INV_L = ("    invariant i_ <= lhs.data@.len(),\n"
             "      forall|c: u64| row@.contains_key(c) <==> has(lhs.data@.subrange(0, i_ as int), c),\n"
             "      forall|i: int| 0 <= i < i_ ==> row@[#[trigger] lhs.data@[i]] == cellv(lhs.id, lhs.data@[i], lhs_row),\n"
             "    decreases lhs.data@.len() - i_,\n")
    INV_R = ("    invariant j_ <= rhs.data@.len(),\n"
             "      forall|i: int, j: int| 0 <= i < lhs.data@.len() && 0 <= j < rhs.data@.len() && !common_rhs@.contains(rhs.data@[j]) ==> lhs.data@[i] != rhs.data@[j],\n"
             "      forall|c: u64| row@.contains_key(c) <==> (has(lhs.data@, c) || (has(rhs.data@.subrange(0, j_ as int), c) && !common_rhs@.contains(c))),\n"
             "      forall|i: int| 0 <= i < lhs.data@.len() ==> row@[#[trigger] lhs.data@[i]] == cellv(lhs.id, lhs.data@[i], lhs_row),\n"
             "      forall|j: int| 0 <= j < j_ && !common_rhs@.contains(rhs.data@[j]) ==> row@[#[trigger] rhs.data@[j]] == (if rhs_empty || rhs_row == 0 { Value::Empty } else { cellv(rhs.id, rhs.data@[j], rhs_row) }),\n"
             "    decreases rhs.data@.len() - j_,\n")
    GH_L = "proof { assert(forall|c: u64| has(lhs.data@.subrange(0, i_ as int), c) <==> (has(lhs.data@.subrange(0, i_ - 1), c) || c == lhs.data@[i_ - 1])) by { assert(lhs.data@.subrange(0, i_ as int) =~= lhs.data@.subrange(0, i_ - 1).push(lhs.data@[i_ - 1])); lemma_has_push(lhs.data@.subrange(0, i_ - 1), lhs.data@[i_ - 1]); } }"
    GH_R = "proof { assert(forall|c: u64| has(rhs.data@.subrange(0, j_ as int), c) <==> (has(rhs.data@.subrange(0, j_ - 1), c) || c == rhs.data@[j_ - 1])) by { assert(rhs.data@.subrange(0, j_ as int) =~= rhs.data@.subrange(0, j_ - 1).push(rhs.data@[j_ - 1])); lemma_has_push(rhs.data@.subrange(0, j_ - 1), rhs.data@[j_ - 1]); } }"
    b, n1 = re.subn(r"for\s+\(\s*lhs_id\s*,\s*_\s*\)\s+in\s+lhs\.data\.iter\(\)\s*\{", "let mut i_: usize = 0;\n    while i_ < lhs.data.len()\n" + INV_L + "    {\n        let lhs_id = &lhs.data[i_]; i_ += 1;\n        " + GH_L, b)
    b, n2 = re.subn(r"for\s+\(\s*rhs_id\s*,\s*_\s*\)\s+in\s+rhs\.data\.iter\(\)\s*\{", "proof { assert(lhs.data@.subrange(0, lhs.data@.len() as int) =~= lhs.data@); }\n    let mut j_: usize = 0;\n    while j_ < rhs.data.len()\n" + INV_R + "    {\n        let rhs_id = &rhs.data[j_]; j_ += 1;\n        " + GH_R, b)
    if n1 != 1 or n2 != 1:
        raise AnchorLost("merge_rows: the two column loops not found")
    if re.search(r"\b(iter\(\)|unwrap_or|index1d)\b", b):
        raise AnchorLost("merge_rows: statements outside the transcription rules")
    # the final expression `row`: the whole-range fact first
    b = re.sub(r"\brow\s*$", "proof { assert(rhs.data@.subrange(0, rhs.data@.len() as int) =~= rhs.data@); }\n    row", b.rstrip())
    LEMMA = """
pub proof fn lemma_has_push(v: Seq<u64>, x: u64)
  ensures forall|c: u64| has(v.push(x), c) <==> (has(v, c) || c == x),
{
  assert forall|c: u64| has(v.push(x), c) <==> (has(v, c) || c == x) by {
    if has(v, c) { let i = choose|i: int| 0 <= i < v.len() && v[i] == c; assert(v.push(x)[i] == c); }
    if c == x { assert(v.push(x)[v.len() as int] == c); }
    if has(v.push(x), c) { let i = choose|i: int| 0 <= i < v.push(x).len() && v.push(x)[i] == c; if i < v.len() { assert(v[i] == c); } }
  }
}
"""
    return (LEMMA + "fn merge_rows(lhs: &MechTable, lhs_row: usize, rhs: &MechTable, rhs_row: usize, common_rhs: &HashSet<u64>, rhs_empty: bool) -> (row: HashMap<u64, Value>)\n"
            + MERGE_ENS + "{\n" + b + "\n}\n")


def merge_unit(text):
    return ("use vstd::prelude::*;\nuse std::collections::{HashMap, HashSet};\nverus! {\nbroadcast use vstd::std_specs::hash::group_hash_axioms;\n"
            + _row_model() + merge_rows_fn(text) + vlib.verus_canary("canary_merge", "x: u64", []) + "\n} // verus!\nfn main() {}\n")


# ---------------------------------------------------------------------------------------------------------------------
# which output columns become optional
COLS_MODEL = """
#[derive(Clone, Copy, PartialEq, Eq, Structural)]
pub struct ValueKind { pub id: u64 }
impl ValueKind { pub fn clone(&self) -> (r: ValueKind) ensures r == *self, { *self } }
#[derive(Clone, Copy, PartialEq, Eq, Structural)]
pub struct Name { pub id: u64 }
pub struct MechTable { pub data: Vec<(u64, (ValueKind, u64))>, pub id: u64 }
pub uninterp spec fn optional(k: ValueKind) -> ValueKind;          // make_optional_kind
pub uninterp spec fn name_of(t: u64, col: u64) -> Name;             // the column's name (or its id as text)
#[verifier::external_body]
pub fn make_optional_kind(k: &ValueKind) -> (r: ValueKind) ensures r == optional(*k), { unimplemented!() }
#[verifier::external_body]
pub fn col_name(t: &MechTable, col: &u64) -> (r: Name) ensures r == name_of(t.id, *col), { unimplemented!() }
// ---- THE CONTRACT (C18): the output has the union of the columns -- every lhs column, then every rhs column that is not a common one --
// and a column becomes optional exactly when it can be missing: an lhs-only column in a right / full outer join (rows that come from rhs
// alone), an rhs-only column in a left / full outer join (rows that come from lhs alone); common columns are never missing
pub open spec fn lhs_col(lhs: MechTable, common_lhs: Set<u64>, mode: JoinMode, i: int) -> (u64, ValueKind, Name) {
  let (id, (kind, _c)) = lhs.data@[i];
  (id, if !common_lhs.contains(id) && (mode is RightOuter || mode is FullOuter) { optional(kind) } else { kind }, name_of(lhs.id, id))
}
pub open spec fn lhs_cols(lhs: MechTable, common_lhs: Set<u64>, mode: JoinMode, n: int) -> Seq<(u64, ValueKind, Name)> decreases n {
  if n <= 0 { Seq::empty() } else { lhs_cols(lhs, common_lhs, mode, n - 1).push(lhs_col(lhs, common_lhs, mode, n - 1)) }
}
pub open spec fn rhs_cols(rhs: MechTable, common_rhs: Set<u64>, mode: JoinMode, n: int) -> Seq<(u64, ValueKind, Name)> decreases n {
  if n <= 0 { Seq::empty() } else {
    let (id, (kind, _c)) = rhs.data@[n - 1];
    if common_rhs.contains(id) { rhs_cols(rhs, common_rhs, mode, n - 1) }
    else { rhs_cols(rhs, common_rhs, mode, n - 1).push((id, if mode is LeftOuter || mode is FullOuter { optional(kind) } else { kind }, name_of(rhs.id, id))) }
  }
}
"""


def output_cols_fn(text):
    """(F) `build_joined_table` from `let mut output_cols` to (not including) the semi/anti override `if matches!(mode, JoinMode::LeftSemi | JoinMode::LeftAnti)`:
      O1 `for (ID, (kind, _)) in T.data.iter() {` -> `let mut i_ = 0; while i_ < T.data.len() { let ID = &T.data[i_].0; let kind = &(T.data[i_].1).0; i_ += 1;`
      O2 `T.col_names.get(ID).cloned().unwrap_or_else(|| ID.to_string())` -> `col_name(T, ID)`;  `Vec<(u64, ValueKind, String)>` -> `Vec<(u64, ValueKind, Name)>`"""
    sig, body = extract_fn(text, "build_joined_table")
    b0 = re.sub(r"//[^\n]*", "", body).replace("\r", "")
    a = find_code(b0, r"let\s+mut\s+output_cols\s*:")
    z = find_code(b0, r"if\s+matches!\(\s*mode\s*,\s*JoinMode::LeftSemi\s*\|\s*JoinMode::LeftAnti\s*\)\s*\{")
    if not a or not z or z.start() < a.start():
        raise AnchorLost("build_joined_table: `let mut output_cols` .. the semi/anti override not found")
    b = b0[a.start():z.start()]
    b = b.replace("Vec<(u64, ValueKind, String)>", "Vec<(u64, ValueKind, Name)>").replace("vec![]", "Vec::new()")
    b = re.sub(r"(\w+)\s*\.col_names\s*\.get\(\s*(\w+)\s*\)\s*\.cloned\(\)\s*\.unwrap_or_else\(\s*\|\|\s*\2\.to_string\(\)\s*\)", r"col_name(\1, \2)", b)
    INV_L = ("    invariant i_ <= lhs.data@.len(), output_cols@ =~= lhs_cols(*lhs, common_lhs@, mode, i_ as int),\n    decreases lhs.data@.len() - i_,\n")
    INV_R = ("    invariant j_ <= rhs.data@.len(), output_cols@ =~= lhs_cols(*lhs, common_lhs@, mode, lhs.data@.len() as int) + rhs_cols(*rhs, common_rhs@, mode, j_ as int),\n    decreases rhs.data@.len() - j_,\n")
    b, n1 = re.subn(r"for\s+\(\s*lhs_id\s*,\s*\(\s*kind\s*,\s*_\s*\)\s*\)\s+in\s+lhs\.data\.iter\(\)\s*\{",
                    "let mut i_: usize = 0;\n        while i_ < lhs.data.len()\n" + INV_L + "        {\n            let lhs_id = &lhs.data[i_].0; let kind = &(lhs.data[i_].1).0; i_ += 1;\n            proof { reveal_with_fuel(lhs_cols, 2); }", b)
    b, n2 = re.subn(r"for\s+\(\s*rhs_id\s*,\s*\(\s*kind\s*,\s*_\s*\)\s*\)\s+in\s+rhs\.data\.iter\(\)\s*\{",
                    "let mut j_: usize = 0;\n        while j_ < rhs.data.len()\n" + INV_R + "        {\n            let rhs_id = &rhs.data[j_].0; let kind = &(rhs.data[j_].1).0; j_ += 1;\n            proof { reveal_with_fuel(rhs_cols, 2); }", b)
    if n1 != 1 or n2 != 1:
        raise AnchorLost("build_joined_table: the two loops that build output_cols not found")
    if re.search(r"\b(iter\(\)|cloned|to_string|unwrap_or_else)\b", b):
        raise AnchorLost("build_joined_table: the output_cols computation is outside the transcription rules")
    return ("fn output_columns(lhs: &MechTable, rhs: &MechTable, mode: JoinMode, common_lhs: &HashSet<u64>, common_rhs: &HashSet<u64>) -> (output_cols: Vec<(u64, ValueKind, Name)>)\n"
            "  ensures output_cols@ =~= lhs_cols(*lhs, common_lhs@, mode, lhs.data@.len() as int) + rhs_cols(*rhs, common_rhs@, mode, rhs.data@.len() as int),\n{\n"
            + b + "\n  output_cols\n}\n")


def cols_unit(text):
    return ("use vstd::prelude::*;\nuse std::collections::HashSet;\nverus! {\nbroadcast use vstd::std_specs::hash::group_hash_axioms;\n"
            + enum_text(text).replace("#[derive(Clone, Copy)]", "#[derive(Clone, Copy, PartialEq, Eq, Structural)]") + COLS_MODEL + output_cols_fn(text) + vlib.verus_canary("canary_cols", "x: u64", []) + "\n} // verus!\nfn main() {}\n")


# ---------------------------------------------------------------------------------------------------------------------
# selecting ONE table row by a scalar index: TableAccessScalarF::solve
SCALAR_ROW_MODEL = """
#[derive(Clone, Copy, PartialEq, Eq, Structural)]
pub struct Value { pub id: u64 }
impl Value { pub fn clone(&self) -> (r: Value) ensures r == *self, { *self } }
pub open spec fn in_rows(ix: usize, len: usize) -> bool { 1 <= ix && ix <= len }      // a 1-based row index that addresses a row
pub struct Column { pub len: usize, pub id: u64 }
pub uninterp spec fn elem(col: u64, row: usize) -> Value;       // the element at a 1-based position of a column
impl Column {
  // Matrix::index1d(ix): 1-based; a position outside 1..=len panics (modelled as None: a panic inside a kernel is an error of the statement)
  #[verifier::external_body]
  pub fn index1d(&self, ix: usize) -> (r: Option<Value>) ensures in_rows(ix, self.len) ==> r == Some(elem(self.id, ix)), !in_rows(ix, self.len) ==> r is None, { unimplemented!() }
}
pub struct ColEntry { pub key: u64, pub kind: u64, pub matrix: Column }      // one (key, (kind, matrix)) entry of the IndexMap
pub struct MechTable { pub data: Vec<ColEntry> }
pub struct MechRecord { pub data: HashMap<u64, Value> }
"""


def scalar_row_fn(text):
    """`TableAccessScalarF::solve` (src/interpreter/src/stdlib/access/table.rs), whole body: `self.source.borrow()` / `self.out.borrow_mut()` / `*self.ix.borrow()` -> the parameters `table`,
    `record`, `row_ix`; `for (key, (kind, matrix)) in table.data.iter() {` -> index loop; `matrix.index1d(i)` -> `matrix.index1d(i)?` (its panic is an early None)"""
    m = find_code(text, r"impl\s+MechFunctionImpl\s+for\s+TableAccessScalarF\s*\{")
    if not m:
        raise AnchorLost("impl MechFunctionImpl for TableAccessScalarF not found")
    sig, body = extract_fn(text[m.start():match_brace(text, m.end() - 1)], "solve")
    b = re.sub(r"//[^\n]*", "", body[body.index("{") + 1:body.rindex("}")]).replace("\r", "")
    b, n1 = re.subn(r"let\s+table\s*=\s*self\.source\.borrow\(\)\s*;", "", b)
    b, n2 = re.subn(r"let\s+mut\s+record\s*=\s*self\.out\.borrow_mut\(\)\s*;", "", b)
    b, n3 = re.subn(r"let\s+row_ix\s*=\s*\*self\.ix\.borrow\(\)\s*;", "", b)
    INV = ("    invariant forall|a: int, b: int| 0 <= a < b < table.data@.len() ==> table.data@[a].key != table.data@[b].key,\n"
           "      forall|k: int| 0 <= k < i_ ==> in_rows(row_ix, (#[trigger] table.data@[k]).matrix.len) && record.data@.contains_key(table.data@[k].key)\n"
           "          && record.data@[table.data@[k].key] == elem(table.data@[k].matrix.id, row_ix),\n")
    b, n4 = re.subn(r"for\s+\(\s*key\s*,\s*\(\s*kind\s*,\s*matrix\s*\)\s*\)\s+in\s+table\.data\.iter\(\)\s*\{", "for i_ in 0..table.data.len()\n" + INV + "  {\n      let key = &table.data[i_].key; let matrix = &table.data[i_].matrix;", b)
    b, n5 = re.subn(r"\bmatrix\.index1d\(((?:[^()]|\([^()]*\))*)\)", r"matrix.index1d(\1)?", b)
    if (n1, n2, n3, n4, n5) != (1, 1, 1, 1, 1) or "self." in b:
        raise AnchorLost("TableAccessScalarF::solve: statements outside the transcription rules %r" % ((n1, n2, n3, n4, n5),))
    return ("fn table_row_by_scalar_index(table: &MechTable, record: &mut MechRecord, row_ix: usize) -> (res: Option<()>)\n"
            "  requires forall|a: int, b: int| 0 <= a < b < table.data@.len() ==> table.data@[a].key != table.data@[b].key,      // column ids are distinct (IndexMap keys)\n"
            "  ensures\n"
            "    // a row that exists in every column: the record holds, for every column, the element of THAT row\n"
            "    res is Some ==> forall|k: int| 0 <= k < table.data@.len() ==> in_rows(row_ix, (#[trigger] table.data@[k]).matrix.len) && final(record).data@.contains_key(table.data@[k].key)\n"
            "        && final(record).data@[table.data@[k].key] == elem(table.data@[k].matrix.id, row_ix),\n"
            "    // a row index that addresses no row (0 or beyond the last row) of some column is an error\n"
            "    (forall|k: int| 0 <= k < table.data@.len() ==> in_rows(row_ix, (#[trigger] table.data@[k]).matrix.len)) ==> res is Some,\n{\n" + b + "\n  Some(())\n}\n")


def scalar_row_unit(text):
    return ("use vstd::prelude::*;\nuse std::collections::HashMap;\nverus! {\nbroadcast use vstd::std_specs::hash::group_hash_axioms;\n"
            + SCALAR_ROW_MODEL + scalar_row_fn(text) + vlib.verus_canary("canary_scalar_row", "x: u64", []) + "\n} // verus!\nfn main() {}\n")


# ---------------------------------------------------------------------------------------------------------------------
# which columns are the common (key) columns
COMMON_MODEL = """
#[derive(Clone, Copy, PartialEq, Eq, Structural)]
pub struct Name { pub id: u64 }
impl Name { pub fn clone(&self) -> (r: Name) ensures r == *self, { *self } }
// `col_names: HashMap<u64, String>` is iterated in SOME order: the model is the sequence of its (id, name) entries in that order
pub struct MechTable { pub col_names: Vec<(u64, Name)>, pub id: u64 }
// rhs.col_names.iter().map(|(id, name)| (name.clone(), *id)).collect::<HashMap<String, u64>>(): an index from a name to AN id that carries it.
// ASSUMED (std HashMap / collect): `inv(entries, n)` is Some(id) only if (id, n) is an entry, and None only if no entry has the name n.
pub uninterp spec fn inv(entries: Seq<(u64, Name)>, n: Name) -> Option<u64>;
pub struct NameIndex { pub src: Ghost<Seq<(u64, Name)>> }
#[verifier::external_body]
pub fn invert_names(t: &MechTable) -> (r: NameIndex) ensures r.src@ == t.col_names@, { unimplemented!() }
impl NameIndex {
  #[verifier::external_body]
  pub fn get(&self, n: &Name) -> (r: Option<&u64>)
    ensures (match r { Some(id) => inv(self.src@, *n) == Some(*id), None => inv(self.src@, *n) is None }),
  { unimplemented!() }
}
pub open spec fn has_first(s: Seq<(u64, u64)>, x: u64) -> bool { exists|k: int| 0 <= k < s.len() && (#[trigger] s[k]).0 == x }
pub open spec fn has_second(s: Seq<(u64, u64)>, x: u64) -> bool { exists|k: int| 0 <= k < s.len() && (#[trigger] s[k]).1 == x }
#[verifier::external_body]
pub fn project_first(v: &Vec<(u64, u64)>) -> (r: HashSet<u64>) ensures forall|x: u64| r@.contains(x) <==> has_first(v@, x), { unimplemented!() }
#[verifier::external_body]
pub fn project_second(v: &Vec<(u64, u64)>) -> (r: HashSet<u64>) ensures forall|x: u64| r@.contains(x) <==> has_second(v@, x), { unimplemented!() }
// ---- THE CONTRACT (C18: "rows are matched on the columns the two tables have in common"): the key columns are, for every lhs column whose
// NAME also names an rhs column, the pair (that lhs column, the rhs column of that name) -- nothing else; `common_lhs` / `common_rhs` are
// exactly the lhs / rhs members of those pairs
pub open spec fn pairs(l: Seq<(u64, Name)>, r: Seq<(u64, Name)>, n: int) -> Seq<(u64, u64)> decreases n {
  if n <= 0 { Seq::empty() } else {
    match inv(r, l[n - 1].1) { Some(rid) => pairs(l, r, n - 1).push((l[n - 1].0, rid)), None => pairs(l, r, n - 1) }
  }
}
"""


def common_cols_fn(text):
    """(G) `build_joined_table` from `let rhs_name_to_id` to (not including) `let mut output_cols`:
      G1 `T.col_names.iter().map(|(id, name)| (name.clone(), *id)).collect()` -> `invert_names(T)` (type `HashMap<String, u64>` -> `NameIndex`)
      G2 `for (lhs_id, lhs_name) in &lhs.col_names {` -> index loop over the entry sequence
      G3 `common_cols.iter().map(|(_, X)| *X).collect()` -> `project_second(&common_cols)`, `.map(|(X, _)| *X)` -> `project_first(&common_cols)`"""
    sig, body = extract_fn(text, "build_joined_table")
    b0 = re.sub(r"//[^\n]*", "", body).replace("\r", "")
    a = find_code(b0, r"let\s+rhs_name_to_id\b")
    z = find_code(b0, r"let\s+mut\s+output_cols\s*:")
    if not a or not z or z.start() < a.start():
        raise AnchorLost("build_joined_table: `let rhs_name_to_id` .. `let mut output_cols` not found")
    b = b0[a.start():z.start()]
    b, n0 = re.subn(r"(\w+)\s*\.col_names\s*\.iter\(\)\s*\.map\(\s*\|\(\s*id\s*,\s*name\s*\)\|\s*\(\s*name\.clone\(\)\s*,\s*\*id\s*\)\s*\)\s*\.collect\(\)", r"invert_names(\1)", b)
    b = b.replace("HashMap<String, u64>", "NameIndex").replace("vec![]", "Vec::new()")
    b, n1 = re.subn(r"for\s+\(\s*lhs_id\s*,\s*lhs_name\s*\)\s+in\s+(?:&lhs\.col_names|lhs\.col_names\.iter\(\))\s*\{",
                    "for c_ in 0..lhs.col_names.len()\n    invariant rhs_name_to_id.src@ == rhs.col_names@, common_cols@ =~= pairs(lhs.col_names@, rhs.col_names@, c_ as int),\n"
                    "  {\n    let lhs_id = &lhs.col_names[c_].0; let lhs_name = &lhs.col_names[c_].1;\n    proof { reveal_with_fuel(pairs, 2); }", b)
    b = re.sub(r"(\w+)\.iter\(\)\.map\(\s*\|\(\s*_\s*,\s*(\w+)\s*\)\|\s*\*\2\s*\)\.collect\(\)", r"project_second(&\1)", b)
    b = re.sub(r"(\w+)\.iter\(\)\.map\(\s*\|\(\s*(\w+)\s*,\s*_\s*\)\|\s*\*\2\s*\)\.collect\(\)", r"project_first(&\1)", b)
    if n0 != 1 or n1 != 1:
        raise AnchorLost("build_joined_table: the name index / the loop over lhs.col_names not found")
    if re.search(r"\b(iter\(\)|collect|map|HashMap|zip|filter)\b", b) or not re.search(r"\bcommon_rhs\b", b) or not re.search(r"\bcommon_lhs\b", b):
        raise AnchorLost("build_joined_table: the common-column discovery is outside the transcription rules")
    return ("fn common_columns(lhs: &MechTable, rhs: &MechTable) -> (res: (Vec<(u64, u64)>, HashSet<u64>, HashSet<u64>))\n"
            "  ensures res.0@ =~= pairs(lhs.col_names@, rhs.col_names@, lhs.col_names@.len() as int),\n"
            "    forall|x: u64| res.1@.contains(x) <==> has_first(res.0@, x),\n"
            "    forall|x: u64| res.2@.contains(x) <==> has_second(res.0@, x),\n{\n"
            + b + "\n  (common_cols, common_lhs, common_rhs)\n}\n")


def common_unit(text):
    return ("use vstd::prelude::*;\nuse std::collections::HashSet;\nverus! {\nbroadcast use vstd::std_specs::hash::group_hash_axioms;\n"
            + COMMON_MODEL + common_cols_fn(text) + vlib.verus_canary("canary_c18_common", "x: u64", []) + "\n} // verus!\nfn main() {}\n")


# ---- make_optional_kind (whole) ---------------------------------------------------------------------------------------------------
OPTK_MODEL = """
pub enum ValueKind { Option(Box<ValueKind>), Other(u64) }
impl ValueKind { #[verifier::external_body] pub fn clone(&self) -> (r: ValueKind) ensures r == *self, { unimplemented!() } }
// ---- THE CONTRACT (C18: "columns that can be missing become optional"): the optional version of a kind is `kind?`, and a kind that is already optional stays as it is
pub open spec fn optional_of(k: ValueKind) -> ValueKind { match k { ValueKind::Option(_) => k, _ => ValueKind::Option(Box::new(k)) } }
"""


def optional_kind_unit(text):
    """`make_optional_kind` (whole body, verbatim; `ValueKind` reduced to Option / every other kind, `clone` = identity)"""
    sig, body = extract_fn(text, "make_optional_kind")
    b = re.sub(r"//[^\n]*", "", body).replace("\r", "")
    return ("use vstd::prelude::*;\nverus! {\n" + OPTK_MODEL +
            "fn make_optional_kind(kind: &ValueKind) -> (r: ValueKind)\n  ensures r == optional_of(*kind),\n" + b + "\n"
            + vlib.verus_canary("canary_optk", "x: u64", []) + "\n} // verus!\nfn main() {}\n")
