"""(X) Verus contracts on the WHOLE bodies of `expand_mechdown_includes_recursive` and `expand_mechdown_include_tokens`
(src/mechfs.rs), extracted on every run onto contracts/C20/incmodel.rs.  Contract (written from the property): the result is
`unfold(path, active)` -- the line-by-line textual substitution: inside a code fence every line is copied, a fence-opening line is
copied, every other line is copied unless it is a stand-alone `{x.mec}` line, which is replaced by the expansion of that file
(resolved against the including file's directory) followed by the line's own newline; a file that is already being expanded, a path
that does not canonicalize and a file that cannot be read are errors; on success the active set is what it was.
Mechanical rewrites (anything else is a lost anchor):
  N1  `for line in X.split_inclusive('\\n') {`  ->  `let lines_ = split_inclusive_nl(&X); let mut li_ = 0; while li_ < lines_.len() { let line = &lines_[li_]; li_ += 1;`
  N2  `String::new()` -> `Str::new()`; `"\\n"` -> `nl_str()`; `""` -> `empty_str()`; `X.strip_suffix('\\n')` -> `strip_suffix_nl(X)`; `X.trim()` -> `trim(X)`
  N3  `P.parent().unwrap_or(Path::new("."))` -> `parent_or_dot(P)`; `D.join(R)` -> `path_join(D, R)`;
      `P.canonicalize().map_err(<closure>)?` -> `canonicalize(P)?`;  `File::open(&P).map_err(..)?.read_to_string(&mut S).map_err(..)?;` -> `read_to_string(&P, &mut S)?;`
  N4  `return Err(..)` -> `return None`; the final `Ok(x)` -> `Some(x)`; `.clone()` of a path dropped; `&Path` / `PathBuf` -> `&u64` / `u64`; `&str` -> `&Str`
  N5  the recursive call inside expand_mechdown_include_tokens -> the stand-in `expand_mechdown_includes_recursive_rec` (modular recursion)
Ghost text (loop invariants, the ghost list of buffered lines, lemma calls) is inserted at statement anchors; no executable token is added."""
import os, re
import vlib
from vlib import AnchorLost, extract_fn, match_brace, find_code, find_all_code
from units import vC16

PATH = "src/mechfs.rs"
TOK_LOCALS = ['result', 'line', 'line_without_newline', 'newline', 'prefix', 'inner', 'include_raw', 'parent', 'include_path', 'include_canonical', 'expanded']
REC_LOCALS = ['canonical_path', 'source', 'result', 'outside_fence_buffer', 'active_fence', 'line', 'marker', 'min_len', 'len', 'expanded']


def model():
    return open(os.path.join(os.path.dirname(os.path.dirname(os.path.abspath(__file__))), "contracts", "C20", "incmodel.rs")).read()


def _map_err_q(b):
    """`.map_err(<balanced>)?` -> `?`"""
    while True:
        m = re.search(r"\s*\.map_err\(", b)
        if not m:
            return b
        e = match_brace(b, m.end() - 1, "(", ")")
        b = b[:m.start()] + b[e:]


def common(sig, body, params, locals_, ref_params):
    b = re.sub(r"//[^\n]*", "", body[body.index("{") + 1:body.rindex("}")]).replace("\r", "")
    b = vlib.canon_bindings(sig, b, params, locals_)
    b = _map_err_q(b)                                                                                                  # N3 (error text dropped)
    b = re.sub(r"File::open\(\s*&(\w+)\s*\)\s*\?\s*\.read_to_string\(\s*&mut\s+(\w+)\s*\)\s*\?\s*;", r"read_to_string(&\1, &mut \2)?;", b)
    b = re.sub(r"\b(\w+)\.canonicalize\(\)\s*\?", lambda m: "canonicalize(%s%s)?" % ("" if m.group(1) in ref_params else "&", m.group(1)), b)
    b = re.sub(r"\b(\w+)\.parent\(\)\.unwrap_or\(Path::new\(\"\.\"\)\)", r"parent_or_dot(\1)", b)
    b = re.sub(r"\b(\w+)\.join\(\s*(\w+)\s*\)", r"path_join(\1, \2)", b)
    b = b.replace("String::new()", "Str::new()")                                                                      # N2
    b = re.sub(r"\b(\w+)\.strip_suffix\('\\n'\)", r"strip_suffix_nl(\1)", b)
    b = re.sub(r"\b(\w+)\.trim\(\)", r"trim(\1)", b)
    b = b.replace('"\\n"', "nl_str()").replace('""', "empty_str()")
    b = re.sub(r"\b(\w+)\.clone\(\)", r"\1", b)                                                                         # N4
    b = re.sub(r"\blet\s+mut\s+(\w+)\s*:\s*HashSet<PathBuf>", r"let mut \1: HashSet<u64>", b)
    b = vC16.err_to_none(b)
    b = re.sub(r"\bOk\s*\(", "Some(", b)
    # N1
    ms = list(re.finditer(r"for\s+line\s+in\s+(\w+)\.split_inclusive\('\\n'\)\s*\{", b))
    if len(ms) != 1:
        raise AnchorLost("expected exactly one `for line in X.split_inclusive('\\n')` loop, found %d" % len(ms))
    return b, ms[0]


TOK_SIG = """fn expand_mechdown_include_tokens(source: &Str, canonical_path: &u64, active_set: &mut HashSet<u64>) -> (res: Option<Str>)
  ensures (match res {
      Some(t) => toks(lines(source.v@), *canonical_path, old(active_set)@) == Some(t.v@) && final(active_set)@ == old(active_set)@,
      None => toks(lines(source.v@), *canonical_path, old(active_set)@) is None }),
"""
TOK_INV = """    invariant li_ <= lines_@.len(), lines_@.len() == ls.len(), forall|k: int| 0 <= k < lines_@.len() ==> (#[trigger] lines_@[k]).v@ == ls[k],
      ls == lines(source.v@), act == old(active_set)@, active_set@ == act,
      toks(ls.subrange(0, li_ as int), *canonical_path, act) == Some(result.v@),
    decreases lines_@.len() - li_,
"""
TOK_FIRST = """    let ghost r0 = result.v@;
    proof { assert(ls.subrange(0, li_ as int) =~= ls.subrange(0, li_ - 1).push(ls[li_ - 1])); lemma_toks_push(ls.subrange(0, li_ - 1), ls[li_ - 1], *canonical_path, act);
            lemma_toks_prefix_none(ls, li_ as int, *canonical_path, act); }
"""
TOK_LEMMA = """
pub proof fn lemma_toks_prefix_none(ls: Seq<Txt>, i: int, cp: u64, act: Set<u64>)
  requires 0 <= i <= ls.len(),
  ensures toks(ls.subrange(0, i), cp, act) is None ==> toks(ls, cp, act) is None,
  decreases ls.len() - i,
{
  if i == ls.len() { assert(ls.subrange(0, i) =~= ls); }
  else {
    assert(ls.subrange(0, i + 1) =~= ls.subrange(0, i).push(ls[i]));
    lemma_toks_push(ls.subrange(0, i), ls[i], cp, act);
    lemma_toks_prefix_none(ls, i + 1, cp, act);
  }
}
"""


def _insert_before(b, pat, text, which=0, count=None):
    ms = find_all_code(b, pat)
    if count is not None and len(ms) != count:
        raise AnchorLost("ghost anchor %r matched %d times (expected %d)" % (pat, len(ms), count))
    if len(ms) <= which:
        raise AnchorLost("ghost anchor %r not found" % pat)
    # start of the statement's line
    p = ms[which].start()
    return b[:p] + text + b[p:]


def _insert_after_stmt(b, pat, text, which=0, count=None):
    ms = find_all_code(b, pat)
    if count is not None and len(ms) != count:
        raise AnchorLost("ghost anchor %r matched %d times (expected %d)" % (pat, len(ms), count))
    if len(ms) <= which:
        raise AnchorLost("ghost anchor %r not found" % pat)
    p = b.index(";", ms[which].end() - 1) + 1
    return b[:p] + "\n" + text + b[p:]


def tokens_fn(text):
    sig, body = extract_fn(text, "expand_mechdown_include_tokens")
    if vlib.param_names(sig) != ["source", "canonical_path", "active_set"] and len(vlib.param_names(sig)) != 3:
        raise AnchorLost("expand_mechdown_include_tokens: parameter list changed")
    b, mh = common(sig, body, ["source", "canonical_path", "active_set"], TOK_LOCALS, {"canonical_path"})
    src = mh.group(1)
    # a loop-invariant computation hoisted above the loop (`let parent = parent_or_dot(canonical_path);`): its defining fact goes into the invariant
    hoisted = "".join("      %s == parent_of(*canonical_path),\n" % m.group(1) for m in re.finditer(r"let\s+(\w+)\s*=\s*parent_or_dot\(\s*canonical_path\s*\)\s*;", b[:mh.start()]))
    inv = TOK_INV.replace("    decreases", hoisted + "    decreases") if hoisted else TOK_INV
    hdr = ("let lines_ = split_inclusive_nl(&%s); let mut li_: usize = 0;\n  let ghost ls = lines(%s.v@);\n  let ghost act = active_set@;\n"
           "  while li_ < lines_.len()\n%s  {\n    let line = &lines_[li_]; li_ += 1;\n%s" % (src, src, inv, TOK_FIRST))
    end = match_brace(b, mh.end() - 1)
    b = b[:mh.start()] + hdr + b[mh.end():end] + "\n  proof { assert(ls.subrange(0, ls.len() as int) =~= ls); }\n" + b[end:]
    b, n = re.subn(r"\bexpand_mechdown_includes_recursive\(", "expand_mechdown_includes_recursive_rec(", b)              # N5
    if n != 1:
        raise AnchorLost("expand_mechdown_include_tokens: expected one recursive call, found %d" % n)
    # ghost hints: unfold tokline before the include path is resolved; associativity before the `continue` of the include branch
    b = _insert_before(b, r"let\s+include_canonical\s*=", "proof { assert(tokline(line.v@, *canonical_path, act) == (match canon(include_path) { None => None::<Txt>, Some(ic) => cat(rec(ic, act), Some(newline.v@)) })); }\n        ", count=1)
    b = _insert_after_stmt(b, r"result\.push_str\(\s*newline\s*\)", "        proof { assert((r0 + expanded.v@) + newline.v@ =~= r0 + (expanded.v@ + newline.v@)); }\n")
    if re.search(r"\b(Ok|Err|MechError|String|Path|PathBuf|File)\b", b):
        raise AnchorLost("expand_mechdown_include_tokens: statements outside the transcription rules")
    return TOK_LEMMA + TOK_SIG + "{\n" + b + "\n}\n"


REC_SIG = """fn expand_mechdown_includes_recursive(path: &u64, active_set: &mut HashSet<u64>) -> (res: Option<Str>)
  ensures (match res {
      Some(t) => unfold(*path, old(active_set)@) == Some(t.v@) && final(active_set)@ == old(active_set)@,
      None => unfold(*path, old(active_set)@) is None }),
"""
REC_INV = """    invariant li_ <= lines_@.len(), lines_@.len() == ls.len(), forall|k: int| 0 <= k < lines_@.len() ==> (#[trigger] lines_@[k]).v@ == ls[k],
      ls == lines(source.v@), cp == canonical_path, canon(*path) == Some(cp), !old(active_set)@.contains(cp), readf(cp) == Some(source.v@), act == old(active_set)@.insert(cp),
      active_set@ == act,
      bl.len() <= li_, bl == ls.subrange(li_ - bl.len(), li_ as int), outside_fence_buffer.v@ == flat(bl),
      active_fence is Some ==> bl.len() == 0,
      doc(ls, 0, None, cp, act) == cat(cat(Some(result.v@), toks(bl, cp, act)), doc(ls, li_ as int, active_fence, cp, act)),
    decreases lines_@.len() - li_,
"""
REC_FIRST = """    let ghost r0 = result.v@;
    let ghost d1 = doc(ls, li_ as int, if active_fence is Some { if closes(line.v@, active_fence.unwrap().0, active_fence.unwrap().1) { None } else { active_fence } } else { match cfd(line.v@) { Some((m, len, _j)) => Some((m, len)), None => None } }, cp, act);
"""


def rec_fn(text):
    sig, body = extract_fn(text, "expand_mechdown_includes_recursive")
    if len(vlib.param_names(sig)) != 2:
        raise AnchorLost("expand_mechdown_includes_recursive: parameter list changed")
    b, mh = common(sig, body, ["path", "active_set"], REC_LOCALS, {"path"})
    src = mh.group(1)
    hdr = ("let lines_ = split_inclusive_nl(&%s); let mut li_: usize = 0;\n  let ghost ls = lines(%s.v@);\n  let ghost act = active_set@;\n  let ghost cp = canonical_path;\n"
           "  let ghost mut bl: Seq<Txt> = Seq::empty();\n  proof { lemma_cat_empty(doc(ls, 0, None, cp, act)); }\n"
           "  while li_ < lines_.len()\n%s  {\n    let line = &lines_[li_]; li_ += 1;\n%s" % (src, src, REC_INV, REC_FIRST))
    end = match_brace(b, mh.end() - 1)
    loop_body, after = b[mh.end():end], b[end:]
    # ---- ghost text inside the loop body
    #  (a) inside a fence: before the `continue` of the `if let Some(..) = active_fence` block
    G_FENCE = "proof { lemma_cat_empty(Some(r0)); lemma_cat_empty(Some(r0 + line.v@)); lemma_cat_assoc(Some(r0), Some(line.v@), d1); }\n      "
    G_OPEN = ("proof { lemma_cat_empty(Some(r1)); lemma_cat_empty(Some(r1 + line.v@)); lemma_cat_assoc(Some(r1), Some(line.v@), d1);\n"
              "              assert(bl =~= ls.subrange(li_ - bl.len(), li_ as int)); }\n      ")

    def at_block_end(lb, pat, ghost):
        """ghost text at the end of the block opened by `pat` (before its trailing `continue;` if it ends with one)"""
        ms = find_all_code(lb, pat)
        if len(ms) != 1:
            raise AnchorLost("expand_mechdown_includes_recursive: block %r found %d times" % (pat, len(ms)))
        e = match_brace(lb, ms[0].end() - 1)
        blk = lb[ms[0].end():e - 1]
        mc = re.search(r"\bcontinue\s*;\s*$", blk)
        pos = ms[0].end() + (mc.start() if mc else len(blk))
        return lb[:pos] + ghost + lb[pos:]
    loop_body = at_block_end(loop_body, r"if\s+let\s+Some\(\(\w+,\s*\w+,\s*_\)\)\s*=\s*code_fence_delimiter\(\s*line\s*\)\s*\{", G_OPEN)
    loop_body = at_block_end(loop_body, r"if\s+let\s+Some\(\(\w+,\s*\w+\)\)\s*=\s*active_fence\s*\{", G_FENCE)
    #  (b) the flush inside the loop: `if !outside_fence_buffer.is_empty() { .. }`
    loop_body = flush(loop_body, "li_ - 1 - bl.len(), li_ - 1", in_loop=True)
    #  (c) buffering a line
    loop_body = _insert_after_stmt(loop_body, r"outside_fence_buffer\.push_str\(\s*line\s*\)",
        "    proof { lemma_toks_push(bl, line.v@, cp, act); lemma_flat_push(bl, line.v@);\n"
        "            lemma_cat_assoc(Some(r0), toks(bl, cp, act), tokline(line.v@, cp, act));\n"
        "            lemma_cat_assoc(cat(Some(r0), toks(bl, cp, act)), tokline(line.v@, cp, act), d1);\n"
        "            assert(bl.push(line.v@) =~= ls.subrange(li_ - (bl.len() + 1), li_ as int));\n"
        "            bl = bl.push(line.v@); }\n", count=1)
    # ---- after the loop: the final flush and the removal from the active set
    after = flush(after, "li_ - bl.len(), li_ as int", in_loop=False)
    after = _insert_after_stmt(after, r"active_set\.remove\(", "  proof { assert(active_set@ =~= old(active_set)@); }\n")
    b = b[:mh.start()] + hdr + loop_body + after
    if re.search(r"\b(Ok|Err|MechError|String|Path|PathBuf|File)\b", b):
        raise AnchorLost("expand_mechdown_includes_recursive: statements outside the transcription rules")
    return REC_SIG + "{\n" + b + "\n}\n"


def flush(b, rng, in_loop):
    ms = find_all_code(b, r"if\s+!\s*outside_fence_buffer\.is_empty\(\)\s*\{")
    if len(ms) != 1:
        raise AnchorLost("expected one `if !outside_fence_buffer.is_empty()` %s the line loop, found %d" % ("inside" if in_loop else "after", len(ms)))
    m = ms[0]
    e = match_brace(b, m.end() - 1)
    blk = b[m.end():e - 1]
    if re.match(r"\s*else\b", b[e:]):
        raise AnchorLost("the flush `if` has an else branch (the ghost else would collide)")
    blk = "\n        proof { axiom_lines_of_consecutive_pieces(source.v@, %s); }" % rng + blk
    if in_loop:
        blk = _insert_after_stmt(blk, r"outside_fence_buffer\.clear\(\)", "        proof { bl = Seq::empty(); }\n")
        ghost_else = " else {\n        proof { lemma_flat_empty_means_no_pieces(source.v@, %s); bl = Seq::empty(); }\n      }\n      let ghost r1 = result.v@;\n" % rng
    else:
        blk = blk + "    proof { lemma_cat_empty(Some(result.v@)); }\n  "
        ghost_else = " else {\n    proof { lemma_flat_empty_means_no_pieces(source.v@, %s); lemma_cat_empty(Some(result.v@)); }\n  }\n" % rng
    return b[:m.end()] + blk + "}" + ghost_else + b[e:]


PRE = "use vstd::prelude::*;\nuse std::collections::HashSet;\nverus! {\nbroadcast use vstd::std_specs::hash::group_hash_axioms;\n"
# the callee as the caller sees it: its contract only (Verus is modular; the body is verified in its own unit)
TOK_STANDIN = "#[verifier::external_body]\n" + TOK_SIG + "{ unimplemented!() }\n"


def tokens_unit(text):
    return PRE + model() + tokens_fn(text) + vlib.verus_canary("canary_c20_tokens", "x: u64", []) + "\n} // verus!\nfn main() {}\n"


def rec_unit(text):
    return PRE + model() + TOK_STANDIN + rec_fn(text) + vlib.verus_canary("canary_c20_rec", "x: u64", []) + "\n} // verus!\nfn main() {}\n"


def entry_fn(text):
    """`expand_mechdown_includes` (whole body, the entry of the expansion): `.map_err(<closure>)?` -> `?`, `P.canonicalize()?` -> `canonicalize(P)?`,
    `HashSet<PathBuf>` -> `HashSet<u64>`, the call of the recursive function -> its stand-in (modular)"""
    sig, body = extract_fn(text, "expand_mechdown_includes")
    b = re.sub(r"//[^\n]*", "", body[body.index("{") + 1:body.rindex("}")]).replace("\r", "")
    b = _map_err_q(b)
    b = re.sub(r"\b(\w+)\.canonicalize\(\)\s*\?", r"canonicalize(\1)?", b)
    b = re.sub(r"\blet\s+mut\s+(\w+)\s*:\s*HashSet<PathBuf>", r"let mut \1: HashSet<u64>", b)
    b, n = re.subn(r"\bexpand_mechdown_includes_recursive\(", "expand_mechdown_includes_recursive_rec(", b)
    if n != 1 or re.search(r"\b(map_err|MechError|PathBuf)\b", b):
        raise AnchorLost("expand_mechdown_includes: the body is outside the transcription rules")
    return ("fn expand_mechdown_includes(path: &u64) -> (r: Option<Str>)\n"
            "  // loading starts with NO file being expanded: the result is the expansion of the (canonical) file with an empty active set\n"
            "  ensures (match canon(*path) { None => r is None, Some(c) => (match r { Some(t) => rec(c, Set::<u64>::empty()) == Some(t.v@), None => rec(c, Set::<u64>::empty()) is None }) }),\n{\n" + b + "\n}\n")


def entry_unit(text):
    return PRE + model() + entry_fn(text) + vlib.verus_canary("canary_c20_entry", "x: u64", []) + "\n} // verus!\nfn main() {}\n"
