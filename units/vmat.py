"""(K) transcription of the indexing kernels (macro_rules! bodies over nalgebra matrices) onto the Verus matrix model
/verif/contracts/common/matmodel.rs, and the per-kernel contracts (requires / ensures / loop invariants).

Rewrite rules, applied mechanically to the macro's transcriber body on every run (nothing else is changed):
  R0  `$name`                         -> `name`                 (macro metavariables become the function's parameters)
  R1  `unsafe { ... }`                -> `...`
  R2  `(&mut (*X))` `(&(*X))` `(& (*X))` `(&mut *X)` `(&*X)` `(*X)` `*X` (X a parameter) -> `X`   (raw-pointer derefs)
  R3  `let a = &X;`                   -> `let a = X;`           (alias of a parameter)
  R4  `M.index((A, B)).clone()`       -> `M.get2(A, B)?`        (bounds-checked: a panic is an early None)
      `M.index(A).clone()`            -> `M.get1(A)?`
  R5  `M[(A, B)] = V;`                -> `M.set2(A, B, V)?;`
      `M[A] = V;`                     -> `M.set1(A, V)?;`
      `M[(A, B)] op= V;` / `M[A] op= V;`  -> get, apply `op` with wrapping semantics on the u64 model, set
  R6  remaining `M[(A, B)]`, `M[A]` reads -> `M.get2(A, B)?` / `M.get1(A)?`
  R7  `E - 1` (E a parameter or an index read) -> `dec(E)?`     (0 - 1: panic in debug, wrap + failed bounds check in release)
  R8  `.clone()` on element values    -> dropped                (elements are modelled as u64: the kernels only clone them)
  R9  `M.column_mut(C)[R]` / `M.row_mut(R)[C]` (a view subscripted once) -> `M[(R, C)]`
  R10 `let mut v = M.column_mut(C);` ... `v[R]` -> `let v_ix_ = M.col_ok(C)?;` ... `M[(R, v_ix_)]`   (the view's own bounds check kept)
  R11 `for &x in I.iter()` / `for (i, &x) in I.iter().enumerate()` over an index container -> index loop reading `I[k]`
The transcribed function returns `Some(())` when the real kernel returns normally and `None` when it panics.
"""
import os, re, sys
sys.path.insert(0, os.path.join(os.path.dirname(os.path.abspath(__file__)), "..", "tools"))
from vlib import AnchorLost, match_brace, find_all_code, find_code, extract_macro, macro_arm_body, inject_loop_specs

MODEL_PATH = os.path.join(os.path.dirname(os.path.abspath(__file__)), "..", "contracts", "common", "matmodel.rs")

RULES_DOC = __doc__


def model_text():
    return open(MODEL_PATH).read()


def _match_paren(s, i):
    """s[i] is '(' or '[': index just past the matching closer"""
    return match_brace(s, i, s[i], {"(": ")", "[": "]", "{": "}"}[s[i]])


def _split_top_commas(s):
    parts, depth, cur = [], 0, ""
    for ch in s:
        if ch in "([{":
            depth += 1
        elif ch in ")]}":
            depth -= 1
        if ch == "," and depth == 0:
            parts.append(cur); cur = ""
        else:
            cur += ch
    parts.append(cur)
    return [p.strip() for p in parts]


def _rewrite_index_calls(b):
    # R4: X.index(ARGS).clone()  (ARGS either `(A, B)` or `A`)
    while True:
        m = re.search(r"\.index\(", b)
        if not m:
            return b
        end = _match_paren(b, m.end() - 1)
        args = b[m.end():end - 1].strip()
        rest = b[end:]
        mc = re.match(r"\s*\.clone\(\)", rest)
        tail = rest[mc.end():] if mc else rest
        if args.startswith("(") and _match_paren(args, 0) == len(args):
            parts = _split_top_commas(args[1:-1])
            if len(parts) != 2:
                raise AnchorLost("index((..)) with %d components" % len(parts))
            rep = ".get2(%s, %s)?" % (parts[0], parts[1])
        else:
            rep = ".get1(%s)?" % args
        b = b[:m.start()] + rep + tail


def _rewrite_brackets(b, names):
    """R5/R6 on identifiers in `names` followed by `[`"""
    pos = 0
    while True:
        m = re.compile(r"\b(%s)\s*\[" % "|".join(map(re.escape, names))).search(b, pos)
        if not m:
            return b
        # not a macro repetition or attribute
        end = _match_paren(b, m.end() - 1)
        inner = b[m.end():end - 1].strip()
        two = inner.startswith("(") and _match_paren(inner, 0) == len(inner)
        args = [_rewrite_brackets(x, names) for x in (_split_top_commas(inner[1:-1]) if two else [inner])]
        rest = b[end:]
        ma = re.match(r"\s*(=|\+=|-=|\*=|/=)(?!=)\s*", rest)
        if ma:
            # assignment statement: value up to the terminating `;` at depth 0
            k, depth = ma.end(), 0
            while k < len(rest):
                ch = rest[k]
                if ch in "([{":
                    depth += 1
                elif ch in ")]}":
                    depth -= 1
                elif ch == ";" and depth == 0:
                    break
                k += 1
            val = rest[ma.end():k].strip()
            val = _rewrite_brackets(val, names)
            op = ma.group(1)
            X = m.group(1)
            a = ", ".join(args)
            if op == "=":
                rep = "%s.set%d(%s, %s)?" % (X, len(args), a, val)
            else:
                fn = {"+=": "wadd", "-=": "wsub", "*=": "wmul", "/=": "wdiv"}[op]
                rep = "{ let cur_ = %s.get%d(%s)?; let new_ = %s(cur_, %s)?; %s.set%d(%s, new_)?; }" % (X, len(args), a, fn, val, X, len(args), a)
            b = b[:m.start()] + rep + rest[k:]
            pos = m.start() + len(rep)
        else:
            rep = "%s.get%d(%s)?" % (m.group(1), len(args), ", ".join(args))
            b = b[:m.start()] + rep + rest
            pos = m.start() + len(rep)


def transcribe(macro_text, params, scalars=()):
    """macro_text: full `macro_rules! name {...}`; params: metavariable names in order (without $); scalars: those that are
    plain values (usize / u64 / bool).  Returns the function body (without outer braces)."""
    pat, body = macro_arm_body(macro_text, 0)
    metas = re.findall(r"\$(\w+)\s*:\s*\w+", pat)
    if metas != list(params):
        raise AnchorLost("macro parameters are %s, contract was written for %s" % (metas, list(params)))
    return rewrite_body(body, params, scalars)


def rewrite_body(body, params, scalars=()):
    """rules R1-R9 on a block of statements whose container variables are named `params`"""
    b = body.strip()
    # R1
    m = re.match(r"unsafe\s*\{", b)
    if m:
        e = match_brace(b, m.end() - 1)
        if b[e:].strip() not in ("", ";"):
            raise AnchorLost("code after the unsafe block")
        b = b[m.end():e - 1]
    # strip comments
    b = re.sub(r"//[^\n]*", "", b)
    # R0
    for p in params:
        b = re.sub(r"\$%s\b" % p, p, b)
    if "$" in b:
        raise AnchorLost("unexpected metavariable in kernel body")
    names = "|".join(params)
    # R2
    for pat2 in (r"\(\s*&\s*mut\s*\(\s*\*\s*(%s)\s*\)\s*\)", r"\(\s*&\s*\(\s*\*\s*(%s)\s*\)\s*\)", r"\(\s*&\s*mut\s*\*\s*(%s)\s*\)",
                 r"\(\s*&\s*\*\s*(%s)\s*\)", r"\(\s*\*\s*(%s)\s*\)", r"&\s*\(\s*\*\s*(%s)\s*\)"):
        b = re.sub(pat2 % names, r"\1", b)
    b = re.sub(r"(?<![\w)\]])\*\s*\(\s*(%s)\s*\)" % names, r"\1", b)
    # `*X` : a read of a scalar behind the pointer becomes the parameter; a write `*X = ..` to a scalar output stays a write
    b = re.sub(r"(?<![\w)\]])\*\s*(%s)\b(?!\s*=(?!=))" % names, r"\1", b)
    b = re.sub(r"\(\s*(%s)\s*\)" % names, r"\1", b)
    # R11: iterator loops over an index container -> index loops
    #   `for &V in (X).iter() {` / `for V in X.iter() {`            -> `for k_V in 0..X.len() { let V = X[k_V];`
    #   `for (I, &V) in (X).iter().enumerate() {` (also `(&X)`)     -> `for I in 0..X.len() { let V = X[I];`
    def _iter_loops(b):
        b = re.sub(r"for\s*\(\s*(\w+)\s*,\s*&?\s*(\w+)\s*\)\s*in\s*\(?\s*&?\s*(%s)\s*\)?\s*\.iter\(\)\s*\.enumerate\(\)\s*\{" % names,
                   r"for \1 in 0..\3.len() { let \2 = \3[\1];", b)
        b = re.sub(r"for\s+&?\s*(\w+)\s+in\s*\(?\s*&?\s*(%s)\s*\)?\s*\.iter\(\)\s*\{" % names,
                   r"for k_\1 in 0..\2.len() { let \1 = \2[k_\1];", b)
        return b
    b = _iter_loops(b)
    # R10: `let mut C = (M).column_mut(E);` ... `C[X]`  ->  `let C_ix_ = M.col_ok(E)?;` ... `M[(X, C_ix_)]`   (row_mut likewise)
    def _view_alias(b):
        while True:
            m = re.search(r"let\s+(?:mut\s+)?(\w+)\s*=\s*\(?\s*(%s)\s*\)?\s*\.\s*(column_mut|row_mut)\(" % names, b)
            if not m:
                return b
            e = _match_paren(b, m.end() - 1)
            arg = b[m.end():e - 1].strip()
            semi = b.index(";", e)
            v, M, kind = m.group(1), m.group(2), m.group(3)
            chk = "col_ok" if kind == "column_mut" else "row_ok"
            head = b[:m.start()] + "let %s_ix_ = %s.%s(%s)?;" % (v, M, chk, arg)
            rest = b[semi + 1:]
            def sub(mm):
                inner = mm.group(1)
                return "%s[(%s, %s_ix_)]" % (M, inner, v) if kind == "column_mut" else "%s[(%s_ix_, %s)]" % (M, v, inner)
            rest = re.sub(r"\b%s\s*\[([^\[\]]*)\]" % re.escape(v), sub, rest)
            b = head + rest
    b = _view_alias(b)
    # R3 aliases
    aliases = []
    def _alias(mm):
        aliases.append(mm.group(1))
        return "let %s = %s;" % (mm.group(1), mm.group(2)) if mm.group(1) != mm.group(2) else ""
    b = re.sub(r"let\s+(\w+)\s*=\s*&?\s*(%s)\s*;" % names, _alias, b)
    # R9: `X.column_mut(C)[R]` -> `X[(R, C)]` ; `X.row_mut(R)[C]` -> `X[(R, C)]`   (a view indexed once is the element)
    def _view(b):
        while True:
            m = re.search(r"\b(%s)\s*\.\s*(column_mut|row_mut|column|row)\(" % "|".join(list(params) + aliases), b)
            if not m:
                return b
            e = _match_paren(b, m.end() - 1)
            arg = b[m.end():e - 1].strip()
            m2 = re.match(r"\s*\[", b[e:])
            if not m2:
                raise AnchorLost("matrix view used other than by a single subscript (outside the transcription subset)")
            e2 = _match_paren(b, e + m2.end() - 1)
            sub = b[e + m2.end():e2 - 1].strip()
            rc = (sub, arg) if m.group(2).startswith("column") else (arg, sub)
            b = b[:m.start()] + "%s[(%s, %s)]" % (m.group(1), rc[0], rc[1]) + b[e2:]
    b = _view(b)
    # R8 (before index rewriting so `.index(..).clone()` is still recognised there: only bare element clones here)
    allnames = list(params) + aliases
    # R4
    b = _rewrite_index_calls(b)
    # R5 / R6
    nonscalar = [n for n in allnames if n not in scalars]
    b = _rewrite_brackets(b, nonscalar)
    b = re.sub(r"\.clone\(\)", "", b)
    # R7
    b = re.sub(r"((?:\b\w+\.get[12]\([^()]*\)\?)|\b[A-Za-z_]\w*)\s*-\s*1\b", r"dec(\1)?", b)
    if re.search(r"\bunsafe\b|&\s*mut\b|\(\s*\*|\.index\(|\.clone\(", b):
        raise AnchorLost("raw pointer use left after transcription")
    return b.strip()


def inject(body, loops, keyword=r"\bfor\b"):
    """loops: per loop ordinal either a string (header spec) or (header spec, ghost text placed first in the loop body
    [, ghost text placed just before the loop])"""
    ms = find_all_code(body, keyword)
    if len(ms) != len(loops):
        raise AnchorLost("kernel has %d loops, the contract was written for %d" % (len(ms), len(loops)))
    out = body
    for m, spec in reversed(list(zip(ms, loops))):
        head, first, before = (spec, "", "") if isinstance(spec, str) else (tuple(spec) + ("",))[:3]
        i, depth, n = m.end(), 0, len(out)
        while i < n:
            c = out[i]
            if c in "([":
                depth += 1
            elif c in ")]":
                depth -= 1
            elif c == "{" and depth == 0:
                break
            i += 1
        hdr = out[m.start():i]
        mi = re.search(r"ITER_END\((.*?)\)", head)
        if mi:
            # the loop bound is read from a value the loop mutates: name the ghost iterator and state its end as an invariant
            mv = re.match(r"for\s+(\w+)\s+in\s+", hdr)
            if not mv:
                raise AnchorLost("ITER_END on a loop that is not `for x in a..b`")
            it = "it_" + mv.group(1)
            hdr = hdr[:mv.end()] + it + ": " + hdr[mv.end():]
            head = head.replace(mi.group(0), "%s.iter.end == %s" % (it, mi.group(1)))
        out = out[:m.start()] + hdr + "\n" + head + "\n{" + ("\n" + first if first else "") + out[i + 1:]
        if before:
            out = out[:m.start()] + before + "\n" + out[m.start():]
    return out


def dimension_facts(body, params, out_names=("out", "sink")):
    """`let n = ix.len();` (immutable, of an input) before a loop: Verus loop bodies do not see facts about locals established
    before the loop, so `n == ix.ln()` is added to every loop invariant -- the verdict must not depend on whether the
    maintainer hoisted a dimension into a local"""
    facts = []
    for m in re.finditer(r"let\s+(\w+)\s*=\s*(%s)\.(len|nrows|ncols)\(\)\s*;" % "|".join(params), body):
        if m.group(2) in out_names:
            continue
        facts.append("%s == %s.%s()" % (m.group(1), m.group(2), {"len": "ln", "nrows": "nr", "ncols": "nc"}[m.group(3)]))
    return facts


def kernel_fn(name, macro_text, params, sig, requires, ensures, invariants, scalars=(), pre="", post="Some(())", keyword=r"\bfor\b"):
    body = transcribe(macro_text, params, scalars)
    if invariants is not None:
        facts = dimension_facts(body, params)
        if facts:
            def add(lp):
                head = lp if isinstance(lp, str) else lp[0]
                head = re.sub(r"\binvariant\b", "invariant " + ", ".join(facts) + ",", head, count=1) if "invariant" in head else head
                return head if isinstance(lp, str) else (head,) + tuple(lp[1:])
            invariants = [add(lp) for lp in invariants]
        body = inject(body, invariants, keyword=keyword)
    if not body.rstrip().endswith((";", "}")):
        body = body.rstrip() + ";"
    req = ("\n  requires " + ",\n    ".join(requires) + ",") if requires else ""
    ens = ("\n  ensures " + ",\n    ".join(ensures) + ",") if ensures else ""
    return "fn %s(%s) -> (res: Option<()>)%s%s\n{\n%s\n%s\n  %s\n}\n" % (name, sig, req, ens, pre, body, post)


# ---------------------------------------------------------------------------------------------------------------------
# per-kernel obligations ("modes") shared by the C03 / C04 kernel tables
def modes_of(k, atomic=False):
    m = ["value", "reject"]
    if k.get("mask", "addressed" in k):
        m.append("masklen")
    if atomic and k.get("loops") and k.get("atomic", True):
        m.append("atomic")
    return m


def mode_fn(name, k, mt, mode, out="out"):
    req = list(k["requires"])
    valid = k["valid"]
    if mode == "value":
        req.append(valid)
        ens = ["res.is_some()"] + list(k["value"])
    elif mode == "reject":
        # mask kernels: `addressed` = every selected position exists (the mask-length clause is the separate obligation .masklen)
        ens = ["res.is_some() ==> " + k.get("addressed", valid)]
    elif mode == "masklen":
        ens = ["res.is_some() ==> " + k.get("masklen", valid)]
    else:
        ens = ["res.is_none() ==> final(%s).d@ == old(%s).d@" % (out, out)]
    # loop variables are matched by loop ordinal: a renamed loop variable renames it in the contract as well
    ren = {}
    if k.get("loopvars") is not None:
        actual = re.findall(r"\bfor\s+(\w+)\s+in\b", transcribe(mt, k["params"], k.get("scalars", ())))
        if len(actual) == len(k["loopvars"]):
            for old, new in zip(k["loopvars"], actual):
                if old != new:
                    if ren.get(old, new) != new:
                        raise AnchorLost("loop variables renamed inconsistently")
                    ren[old] = new
            spec_text = " ".join(str(x) for lp in k["loops"] for x in ((lp,) if isinstance(lp, str) else lp)) + k.get("post_proof", "")
            for old, new in ren.items():
                if re.search(r"(?<![\w.])%s\b" % re.escape(new), spec_text) and new not in k["loopvars"]:
                    raise AnchorLost("loop variable renamed to `%s`, which the contract already uses for something else" % new)

    def rn(t):
        if not ren:
            return t
        return re.sub(r"(?<![\w.])(%s)\b" % "|".join(map(re.escape, ren)), lambda m_: ren[m_.group(1)], t)
    loops = []
    for lp in k["loops"]:
        head, first, before = (lp, "", "") if isinstance(lp, str) else (tuple(lp) + ("",))[:3]
        head, first, before = rn(head), rn(first), rn(before)
        if mode == "value":      # the precondition VALID is carried through the loops
            head = head.replace("invariant ", "invariant %s, " % valid.replace("old(%s)" % out, out), 1)
        loops.append((head, first, before))
    return kernel_fn("k_%s_%s" % (name, mode), mt, k["params"], k["sig"], req, ens, loops, scalars=k.get("scalars", ()),
                     post=(rn(k.get("post_proof", "")) + "\n  Some(())"))


def add_units(plan, prop, table, path, what, atomic=False, out="out", only_modes=None):
    """one Verus unit per kernel (a kernel whose shape drifted only loses its own obligations)"""
    import vlib
    text = vlib.read_repo(path)
    model = model_text()
    for name, k in table.items():
        modes = [m for m in modes_of(k, atomic) if only_modes is None or m in only_modes]
        obs = {m: plan.ob("%s.verus.%s.%s" % (prop, name, m), "verus", "proved", functions=["%s! (%s)" % (name, k.get("structs", ""))],
                          what=what[m] % (name + "!", k.get("structs", ""))) for m in modes}
        try:
            mt = extract_macro(text, name)
            items = [model] + [mode_fn(name, k, mt, m, out) for m in modes]
        except Exception as e:
            plan.anchor_errors.append(("%s.verus.%s.*" % (prop, name), "%s: %s" % (type(e).__name__, e)))
            for o in obs.values():
                o.status, o.detail = "undecided", "anchor lost: %s" % e
            continue
        items.append(vlib.verus_canary("canary_" + name, "x: u64", []))
        u = vlib.VerusUnit("%s_%s" % (prop.lower(), name), vlib.verus_file(items), {"k_%s_%s" % (name, m): obs[m].name for m in modes}, ["canary_" + name])
        u.rlimit = 150
        plan.verus.append(u)
    plan.dropped.append("(K) indexing kernels: macro bodies transcribed onto the Verus matrix model by the rewrite rules R0-R11 of /verif/units/vmat.py "
                        "(metavariables -> parameters, raw-pointer derefs dropped, nalgebra index/assign -> bounds-checked get/set with `?` for the panic, "
                        "`x - 1` -> dec(x)?, element clones dropped, elements modelled as u64)")
    plan.assumptions.append("nalgebra's DMatrix/DVector/RowDVector behave as /verif/contracts/common/matmodel.rs (column-major storage, bounds-checked "
                            "Index/IndexMut, resize_*_mut gives the requested shape); resize_* are external_body specs")
    plan.assumptions.append("the kernels are generic in the element type and only clone elements: verified at element type u64; source and output do not alias")
